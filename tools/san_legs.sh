#!/usr/bin/env bash
# tools/san_legs.sh <ID> <summary.json> [quick|thorough]
# Sanitizer legs for C06 (undo mechanism = UnsafeCell aliasing) and C09 (threads):
#   miri-*      cargo +nightly miri on harness/src/bin/conc.rs (Stacked and Tree Borrows)
#   tsan-*      ThreadSanitizer builds (-Zbuild-std) of the hooked CLI and of conc
#   memcheck-*  valgrind memcheck on the release binaries
# Each leg reports {name,status(ok|skipped),executions,reports,distinct_reports,command,log}.
# A leg that cannot be built or run is "skipped" with the reason - never a verdict.
set -u
ID=$1; OUT=$2; TIER=${3:-thorough}
V="${PV_DIR:-/verif}"
REPO="${PV_REPO:-/repo}"
SAN=$V/.build/san; mkdir -p "$SAN"; rm -f "$SAN"/*.log "$SAN"/*.leg 2>/dev/null
export CARGO_NET_OFFLINE=true CARGO_TERM_COLOR=never
SEED=${VERIF_SEED:-0}
TARGET=x86_64-unknown-linux-gnu

leg() { # name status executions reports command log distinct...
  python3 - "$@" <<'EOF' >> "$SAN/all.leg"
import json,sys
name,status,execs,reports,cmd,log=sys.argv[1:7]
print(json.dumps({"name":name,"status":status,"executions":int(execs),"reports":int(reports),"command":cmd,"log":log,"distinct_reports":sys.argv[7:]}))
EOF
}

first_frames() { # reports file... -> distinct first in-repo frames (only when there are reports)
  [ "$1" -gt 0 ] 2>/dev/null || return 0
  shift
  grep -hoE "(/src/[A-Za-z0-9_/]+\.rs:[0-9]+|packing::[A-Za-z0-9_:<>]+)" "$@" 2>/dev/null | sed -E 's/:[0-9]+$//' | sort | uniq -c | sort -rn | head -5 | awk '{print $2}'
}

miri_leg() { # name extra-flags mode threads steps nshards
  local name=$1 flags=$2 mode=$3 threads=$4 steps=$5 shards=$6
  local log=$SAN/$name.log; : > "$log"
  # build once
  if ! ( cd $V/harness && CARGO_TARGET_DIR=$V/.build/miri MIRIFLAGS="$flags" timeout 1500 cargo +nightly miri run --offline --bin conc -- $mode 1 1 0 ) >"$SAN/$name.build.log" 2>&1; then
    if grep -q "Undefined Behavior" "$SAN/$name.build.log"; then
      cp "$SAN/$name.build.log" "$log"
    else
      leg "$name" skipped 0 0 "cargo +nightly miri run --bin conc" "$SAN/$name.build.log" "miri could not build or run the harness"; return
    fi
  fi
  seq 0 $((shards-1)) | xargs -P 16 -I{} sh -c "cd $V/harness && CARGO_TARGET_DIR=$V/.build/miri MIRIFLAGS='$flags -Zmiri-seed='\$(( {} + $SEED * 100 )) timeout 3000 cargo +nightly miri run --offline --bin conc -- $mode $threads $steps \$(( {} + $SEED )) > $SAN/$name.{}.log 2>&1; echo \"shard {} exit \$?\" >> $SAN/$name.{}.log"
  cat $SAN/$name.[0-9]*.log >> "$log" 2>/dev/null
  local reports; reports=$(grep -c "error: Undefined Behavior\|error: unsupported operation\|Data race detected\|conc: ORIGINAL CHANGED\|differs from its sequential reference" "$log")
  local ok; ok=$(grep -c "identical to the sequential reference" "$log")
  leg "$name" ok "$ok" "$reports" "MIRIFLAGS='$flags' cargo +nightly miri run --bin conc -- $mode $threads $steps <seed>" "$log" $(first_frames "$reports" "$log")
}

tsan_build() { # dir manifestdir bin
  ( cd "$2" && RUSTFLAGS="--cfg packing_verif -Zsanitizer=thread" CARGO_TARGET_DIR=$V/.build/$1 timeout 1800 cargo +nightly build -Zbuild-std --target $TARGET --release --offline --bin "$3" ) > "$SAN/$1.build.log" 2>&1
}

tsan_cli_leg() {
  local name=tsan-cli log=$SAN/tsan-cli.log; : > "$log"
  if ! tsan_build tsan "$REPO" packing; then leg $name skipped 0 0 "tsan build of the packing binary" "$SAN/tsan.build.log" "ThreadSanitizer build failed"; return; fi
  local exe=$V/.build/tsan/$TARGET/release/packing n=0
  for args in "--replications 16 --steps 300 p2 polygon --sides 4" "--replications 12 --steps 200 -p LJ p2mg trimer" "--replications 16 --steps 200 --inner-steps 50 p1g1 trimer" "--replications 10 --steps 300 p2gg circle"; do
    for th in 2 8 16; do
      for rep in 1 2; do
        n=$((n+1))
        TSAN_OPTIONS="halt_on_error=0 exitcode=0 log_path=$SAN/tsan-cli.run$n" RAYON_NUM_THREADS=$th PACKING_VERIF_JITTER=$((n+SEED)) PACKING_VERIF_LOG=$SAN/tsan-cli.hook \
          timeout 600 $exe --outfile $SAN/tsan-out $args >/dev/null 2>>"$SAN/tsan-cli.stderr" || echo "run $n exit $?" >> "$log"
      done
    done
  done
  cat $SAN/tsan-cli.run* >> "$log" 2>/dev/null
  local reports; reports=$(grep -c "WARNING: ThreadSanitizer" "$log")
  leg $name ok $n "$reports" "TSan build (RUSTFLAGS='--cfg packing_verif -Zsanitizer=thread' cargo +nightly build -Zbuild-std) of packing; 4 argvs x RAYON_NUM_THREADS {2,8,16} x 2 jitters" "$log" $(first_frames "$reports" "$log")
  rm -f $SAN/tsan-out.* $SAN/tsan-cli.hook
}

tsan_conc_leg() {
  local name=tsan-conc log=$SAN/tsan-conc.log; : > "$log"
  if ! tsan_build tsanh $V/harness conc; then leg $name skipped 0 0 "tsan build of conc" "$SAN/tsanh.build.log" "ThreadSanitizer build failed"; return; fi
  local exe=$V/.build/tsanh/$TARGET/release/conc n=0
  for s in 0 1 2 3 4 5; do
    n=$((n+1))
    TSAN_OPTIONS="halt_on_error=0 exitcode=0 log_path=$SAN/tsan-conc.run$n" timeout 900 $exe real 8 200 $((s+SEED)) >> "$log" 2>&1 || echo "run $n exit $?" >> "$log"
    n=$((n+1))
    TSAN_OPTIONS="halt_on_error=0 exitcode=0 log_path=$SAN/tsan-conc.run$n" timeout 900 $exe scripted 8 2000 $((s+SEED)) >> "$log" 2>&1 || echo "run $n exit $?" >> "$log"
  done
  cat $SAN/tsan-conc.run* >> "$log" 2>/dev/null
  local reports; reports=$(grep -c "WARNING: ThreadSanitizer\|ORIGINAL CHANGED\|differs from its sequential reference" "$log")
  leg $name ok $n "$reports" "TSan build of harness/src/bin/conc.rs; real and scripted replicas on 8 threads" "$log" $(first_frames "$reports" "$log")
}

memcheck_leg() { # name exe args...
  local name=$1; shift
  local log=$SAN/$name.log
  if ! command -v valgrind >/dev/null; then leg $name skipped 0 0 valgrind "" "valgrind not installed"; return; fi
  timeout 1800 valgrind --error-exitcode=9 --errors-for-leak-kinds=definite --leak-check=full -q "$@" > "$log" 2>&1
  local rc=$?
  local reports; reports=$(grep -c "^==[0-9]*== \(Invalid\|Conditional jump\|Use of uninit\|Syscall param\|[0-9,]* bytes in [0-9,]* blocks are definitely lost\)" "$log")
  if [ $rc -eq 9 ] && [ "$reports" -eq 0 ]; then reports=1; fi
  leg $name ok 1 "$reports" "valgrind --error-exitcode=9 $*" "$log" $(first_frames "$reports" "$log")
}

: > "$SAN/all.leg"
case "$ID" in
  C06)
    miri_leg miri-scripted-stacked-borrows "-Zmiri-no-extra-rounding-error" scripted 1 150 16
    miri_leg miri-scripted-tree-borrows "-Zmiri-tree-borrows -Zmiri-no-extra-rounding-error" scripted 2 80 16
    memcheck_leg memcheck-conc-scripted $V/.build/rel/release/conc scripted 4 3000 $SEED
    ;;
  C09)
    miri_leg miri-threads-stacked-borrows "-Zmiri-no-extra-rounding-error" scripted 4 40 16
    miri_leg miri-threads-tree-borrows "-Zmiri-tree-borrows -Zmiri-no-extra-rounding-error" scripted 3 40 8
    miri_leg miri-real-states "-Zmiri-disable-validation -Zmiri-no-extra-rounding-error" real-small 2 8 8
    tsan_cli_leg
    tsan_conc_leg
    mkdir -p $V/.build/scratch
    memcheck_leg memcheck-cli-hard $V/.build/cli/release/packing --outfile $V/.build/scratch/mc1 --replications 4 --steps 600 p2mg polygon --sides 5
    memcheck_leg memcheck-cli-lj $V/.build/cli/release/packing --outfile $V/.build/scratch/mc2 --replications 3 --steps 300 -p LJ p2 trimer
    rm -f $V/.build/scratch/mc1.* $V/.build/scratch/mc2.*
    ;;
esac
python3 - "$SAN/all.leg" "$OUT" <<'EOF'
import json,sys
legs=[json.loads(l) for l in open(sys.argv[1]) if l.strip()]
json.dump({"legs":legs},open(sys.argv[2],"w"),indent=1)
print("sanitizer legs:", [(l["name"],l["status"],l["executions"],l["reports"]) for l in legs])
EOF
