#!/usr/bin/env python3
"""Prints the markdown table of seeded changes from /verif/seeded/*/meta.json."""
import json, glob, os
rows = []
for d in sorted(glob.glob('/verif/seeded/*/')):
    m = os.path.join(d, 'meta.json')
    if not os.path.exists(m):
        continue
    j = json.load(open(m))
    rows.append((j['id'], j.get('origin', '')[:12], j['needs_to_manifest'], ('obsolete ' + (j['obsolete'].split(':')[0]) + ' (was: ' + (', '.join(j.get('caught_by', [])) or 'not caught') + ')') if 'obsolete' in j else (', '.join(j.get('caught_by', [])) or 'NONE (documented limit)')))
print("| id | needs, in order to manifest | caught by |")
print("|---|---|---|")
for i, o, n, c in rows:
    print(f"| {i} | {n} | {c} |")
