#!/usr/bin/env python3
import json, sys, glob, jsonschema
jsonschema.validate(json.load(open('/verif/MANIFEST.json')), json.load(open('/root/.vp/MANIFEST.schema.json')))
es = json.load(open('/root/.vp/EVIDENCE.schema.json'))
m = json.load(open('/verif/MANIFEST.json'))
ok = True
for c in m['checks']:
    f = c['evidence_file']
    try:
        jsonschema.validate(json.load(open(f)), es)
    except Exception as e:
        ok = False
        print("BAD", f, str(e)[:200])
ids = {c['property_id'] for c in m['checks']} | {n['property_id'] for n in m.get('not_applicable', [])}
assert ids == {"C%02d" % i for i in range(1, 21)}, ids
print("manifest valid; evidence", "ok" if ok else "PROBLEMS")
