#!/usr/bin/env bash
# tools/coverage.sh: which lines of /repo/src do the quick checks drive?  (library code linked
# into the harness; the binary's own main.rs is driven as a subprocess and not measured here)
set -u
V="$(cd "$(dirname "${BASH_SOURCE[0]}")/.." && pwd)"
BIN=$(dirname "$(find /root/.rustup/toolchains/nightly-x86_64-unknown-linux-gnu -name llvm-profdata | head -1)")
mkdir -p "$V/.build/cov/prof" "$V/.build/cov/evidence_backup"
find "$V/.build/cov/prof" -name '*.profraw' -delete
( cd "$V/harness" && LLVM_PROFILE_FILE="$V/.build/cov/prof/build-%p.profraw.ignore" RUSTFLAGS="-Cinstrument-coverage" CARGO_TARGET_DIR="$V/.build/cov" cargo +nightly build --release --offline --bin pv ) 2>&1 | tail -1
cp "$V"/evidence/*.json "$V/.build/cov/evidence_backup/"
for c in C01 C02 C03 C04 C05 C06 C07 C08 C09 C10 C11 C12 C13 C14 C15 C16 C17 C18 C19 C20; do
  RAYON_NUM_THREADS=1 PV_BUDGET_DIV=200 LLVM_PROFILE_FILE="$V/.build/cov/prof/$c-%p.profraw" PV_DIR="$V" PV_CLI="$V/.build/cli/release/packing" timeout 1200 "$V/.build/cov/release/pv" "$c" --tier quick 2>&1 | grep -E "^HELD|^VIOL|^INCON" | head -1
done
cp "$V/.build/cov/evidence_backup/"*.json "$V/evidence/"
"$BIN/llvm-profdata" merge -sparse "$V"/.build/cov/prof/*.profraw -o "$V/.build/cov/all.profdata"
"$BIN/llvm-cov" report "$V/.build/cov/release/pv" -instr-profile="$V/.build/cov/all.profdata" /repo/src 2>/dev/null | grep -E "^/repo|^TOTAL|^Filename" > "$V/.build/cov/report.txt"
cat "$V/.build/cov/report.txt"
"$BIN/llvm-cov" show "$V/.build/cov/release/pv" -instr-profile="$V/.build/cov/all.profdata" /repo/src -show-line-counts-or-regions 2>/dev/null > "$V/.build/cov/show.txt"
