#!/usr/bin/env bash
# tools/prefix_test.sh <fix-commit> <check...> : temporarily reverse a fix: commit in /repo's
# working tree, run the checks (they must fire), restore.
set -u
C=$1; shift
cd /verif
[ -z "$(git -C /repo status --porcelain -- src Cargo.toml)" ] || { echo "/repo dirty"; exit 2; }
git -C /repo diff "$C" "$C^" | git -C /repo apply || { echo "cannot reverse $C"; exit 2; }
for c in "$@"; do
  cp -f evidence/$c.json /tmp/seedout/evid_backup/ 2>/dev/null
  echo "== $c with $C reverted:"; ./check "$c" --tier quick 2>&1 | grep -E "^(VIOLATION|INCONCLUSIVE|HELD|KNOWN-FINDING)|violations\[" | cut -c1-200 | sort | uniq -c | head -8
  cp -f /tmp/seedout/evid_backup/$c.json evidence/ 2>/dev/null
done
git -C /repo checkout -- .
echo "restored: $(git -C /repo status --porcelain | wc -l) dirty"
