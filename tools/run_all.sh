#!/usr/bin/env bash
# tools/run_all.sh <quick|thorough> [seed ...] [-- ID ...]: every check at the given seeds,
# one line per run: id seed tier exit wall verdict.  Used for sweeps (also under `vp run`).
set -u
V="$(cd "$(dirname "${BASH_SOURCE[0]}")/.." && pwd)"
TIER=${1:-quick}; shift || true
SEEDS=(); IDS=()
while [ $# -gt 0 ]; do
  if [ "$1" = "--" ]; then shift; IDS=("$@"); break; fi
  SEEDS+=("$1"); shift
done
[ ${#SEEDS[@]} -gt 0 ] || SEEDS=(0)
[ ${#IDS[@]} -gt 0 ] || IDS=(C16 C17 C14 C15 C13 C12 C02 C04 C03 C01 C11 C05 C06 C07 C08 C18 C19 C20 C10 C09)
if [ -n "${VP_RUN_REPO:-}" ]; then export PV_REPO="$VP_RUN_REPO"; fi
mkdir -p "$V/.build/logs"
for seed in "${SEEDS[@]}"; do
  for id in "${IDS[@]}"; do
    t0=$(date +%s)
    VERIF_SEED=$seed "$V/check" "$id" --tier "$TIER" > "$V/.build/logs/run-$id-$TIER-$seed.log" 2>&1
    rc=$?
    t1=$(date +%s)
    verdict=$(grep -E "^(HELD|VIOLATION|INCONCLUSIVE)" "$V/.build/logs/run-$id-$TIER-$seed.log" | head -1 | cut -c1-110)
    kf=$(grep -c "^KNOWN-FINDING" "$V/.build/logs/run-$id-$TIER-$seed.log")
    echo "$id seed=$seed tier=$TIER exit=$rc wall=$((t1-t0))s known_findings=$kf :: $verdict"
  done
done
