#!/usr/bin/env python3
"""Regenerates /verif/MANIFEST.json from the table below (keeps it valid at all times)."""
import json, sys

CHECKS = {
 "C09": ("differential runtime monitor (sequential vs rayon pools 1..16 / raw threads with injected delays; CLI under thread counts x hook jitter) + ThreadSanitizer, Miri and memcheck legs",
         "Exploration over schedules: library replicas compared byte for byte with their sequential reference under 7 concurrency modes with seeded sleeps/yields inside score(), the original watched continuously; the real binary's three outputs compared across RAYON_NUM_THREADS {1,2,3,5,8,16} x jitter seeds, with the schedules actually taken read from the hook log and counted (~90 distinct in a quick run). Thorough tier: TSan build of the binary (hooks on), Miri on the UnsafeCell parameter cells under threads, valgrind memcheck on the release binary; any report is a violation.",
         "Schedules are sampled; sanitizers see only the paths driven; Miri runs on real states need -Zmiri-disable-validation because of nalgebra 0.22's own uninit().assume_init().",
         "DESIGN.md 5 C09"),
 "C10": ("process-boundary monitor on the real CLI with per-replica scores from the guarded hook log; re-scoring of the written JSON; label/geometry table from argv",
         "Exploration: 28 (quick) / 210 (thorough) argv families x replications 1..K: written score = max of replica final scores, logged score = score of written structure, monotone in the number of replications, group/family/copy-count/shape geometry as requested.",
         "Replica scores come from the add-only hook (final score paired with the replica through per-thread event order).",
         "DESIGN.md 5 C10"),
 "C11": ("runtime monitor: serde_json text round trip (bytes, score bits, placement bits) + SVG parser compared with placements and independent lattice images; CLI files included",
         "Exploration: ~0.2M (quick) / ~16M (thorough) states with full-precision and range-edge parameters, some optimised, round-tripped through JSON text; ~4k / ~200k SVG documents parsed and matched (9 N transforms each, matrix column order, #mol geometry); the binary's own files must re-serialise to themselves and reproduce the logged score bit for bit.",
         "The harness never relies on serde_json's float parser for its own reading of files (own exact reader).",
         "DESIGN.md 5 C11"),
 "C08": ("Spy range monitor on every evaluated state + per-stage JSON checks over chains of 1-4 optimisation stages, plus initial-state validity sweep",
         "Exploration: ~1.5k (quick) / ~57k (thorough) chains of 1-4 stages on hard and LJ states of all groups (4M+ evaluated states range-checked in quick), with bounds re-derived from each stage's own start, labels and degrees of freedom per family, finite defined score of the re-read result, no panic; and from_group validity for every group x {polygon 3..64, circle, trimers} x potential.",
         "Ranges are those stated by the property, not read from the code; results are read back through serde JSON as a user would.",
         "DESIGN.md 5 C08"),
 "C20": ("trace monitor call counting + bit-exact prefix comparison of convergent vs full runs + loop-boundary convergence rule; process-boundary classifier on the real CLI incl. syscall fault injection (strace) on the output files output paths that are not UTF-8, and standard streams that cannot be written",
         "Exploration: ~3k (quick) / ~96k (thorough) library configurations over steps/inner_steps in {0,1,2,3,7,999,1000,1001,2500,1e5} x temperatures x schedules x thresholds (no panic, work within [steps - one loop, steps], convergent run an exact prefix, exit at exactly the loop the rule dictates) and ~120 (quick) / ~2500 (thorough) runs of the real binary (incl. debug logging on, 'run until converged' step counts, unwritable paths) classified by exit status, stderr and output files; plus fault enumeration: each of the six system calls on the two output files made to fail in turn with ENOSPC/EIO/EACCES/EINTR (72 fault points). Library cases that can abort the process (allocation failure) run in a child process.",
         "The convergence rule is decided only when the loop-boundary scores are unambiguous from the trace (counted in the evidence).",
         "DESIGN.md 5 C20"),
 "C05": ("trace monitor (candidate-set automaton over State::score() calls) on scripted and Spy-wrapped real states across the optimiser configuration space at kt_start = 0 (cooling ratios inside and outside [0,1]), plus lean quenches of more than 2^31 / 2^32 loops",
         "Exploration: ~4k (quick) / ~200k (thorough) runs, tens of millions of observed steps: every accept/reject decision that the parameter vectors resolve is checked (no worse score accepted), and the returned score is compared with the input score, over kt_finish/kt_ratio/steps/inner_steps/convergence/step/seed, through the CLI parser (kt_finish unset) and the builder API.",
         "Decisions are inferred from bit patterns of the parameter vectors at the State boundary; unresolved decisions are never used.",
         "DESIGN.md 3.2, 5 C05"),
 "C06": ("trace monitor: bit-for-bit vector comparison of every evaluated state against all possible current states, adversarial scripted accept/reject histories + real states",
         "Exploration: ~5k (quick) / ~240k (thorough) runs with k = 1..24 parameters, scripted reject runs / alternation / undefined scores, bounds hit on every move or never, parameters starting outside their range, all temperatures: each evaluated vector must differ from a possible current state in at most one parameter and the returned state must be a possible current state. Sanitizer leg (Miri on the UnsafeCell undo mechanism) in the thorough tier.",
         "Observation at the State boundary only; single-parameter states cannot resolve decisions (set semantics).",
         "DESIGN.md 3.2, 5 C06"),
 "C07": ("trace monitor for the deterministic clauses + anchor/probe/sentinel acceptance-frequency estimator with Chernoff/KL bounds for exp(-d/kT) + short-run conditional frequencies over many seeds + far-tail and cooled-to-nothing runs of 1e9-1e11 proposals on a lean state",
         "Exploration / statistical: deterministic clauses on ~20M resolved decisions (quick); acceptance frequencies of 84 (d,kT,k) cells with 2e4 (quick) / 1e6 (thorough) probes each, flagged only when a conservative tail bound is < 1e-12; lag-1 autocorrelation of accept flags; 108k (quick) / 3.6M (thorough) one- and two-step runs with acceptance tallied per moved parameter and previous direction.",
         "A probability is estimated, not proved; deviations below ~3% relative at n = 1e6 are invisible.",
         "DESIGN.md 5 C07"),
 "C18": ("per-loop acceptance-frequency inference of the temperature from scripted probes vs the interval of schedules the property allows, incl. builders with a history and runs asked for 2^31-2^40 loops that leave through the convergence exit",
         "Exploration / statistical: 103 schedule configurations (ratio, finish, both, neither, zero; 1..50 loops and thousands of tiny loops; jammed stretches of fully rejected loops) with 2e4 (quick) / 6e5 (thorough) probes per loop; windows of loops are compared with the probability interval implied by the allowed temperature interval, Chernoff/KL bound < 1e-12 to flag.",
         "Temperature is inferred, resolution ~1.3/sqrt(n) per window; 'neither' pins only the first loop.",
         "DESIGN.md 5 C18"),
 "C19": ("trace monitor: size of every proposal's single-parameter move against every possible parent, under scripted rejection histories; lean freeze-and-release runs of up to 1e9+ proposals measured against the last accepted vector; process-boundary leg on the real CLI (structure vs its start under --max-step-size 0 / 1e-9 / 1e-6)",
         "Exploration: ~5k (quick) / ~240k (thorough) runs, ~30M proposals (quick): largest move in units of half the parameter range must not exceed max_step_size, for 0..100% rejection per loop, 1..50 loops, steps 1e-4..1, k = 1..24, and real states with the declared ranges.",
         "Measured against the most favourable possible parent (conservative).",
         "DESIGN.md 5 C19"),
 "C03": ("differential runtime monitor: PotentialState::score vs exhaustive lattice sum over every image within cutoff + metamorphic re-descriptions of one crystal + state objects edited over histories + multi-site states (up to 140 molecules) + user-defined p4/p3/p6 groups",
         "Exploration: ~0.3M (quick) / ~19M (thorough) LJ states of all groups (circle, trimers) from strongly overlapping to dilute, each compared with an exhaustive per-molecule lattice sum (1e-9 of term magnitudes; 3% of the attractive sum for the uncut circle) and with equivalent descriptions (copy moved across a cell face, origin shifted by normaliser translations). One open known finding (images beyond the third shell inside the cutoff) is reported as KNOWN-FINDING and keyed by an oracle-computed predicate.",
         "The pair kernel is the library's LJ2::energy (decided by C13), cross-checked against the independent law for like particles.",
         "DESIGN.md 5 C03"),
 "C01": ("runtime monitor: library score vs exhaustive lattice-image overlap oracle on uniform, contact-bisected and optimiser-produced states (Spy), state objects edited over histories, flat-histogram walks and targeted searches for states whose first contact is a chosen far lattice image, and CLI output files",
         "Exploration: ~6M (quick) / ~200M (thorough) states - uniform, boundary-focused states bisected to first contact and probed just inside it, every stage result and sampled evaluations of real optimiser pipelines observed through a Spy state, and the CLI's JSON files - are re-examined by an oracle that enumerates every lattice image that can be within reach (from cell heights) and measures penetration by separating axes / disc distance; witnesses are re-confirmed by polygon clipping. Held on the states produced; the thin failing region is sampled, not covered.",
         "Placements are read from cartesian_positions() (their correctness is C04/C14/C15). Convex polygons and unions of discs only.",
         "DESIGN.md 5 C01"),
 "C02": ("differential runtime monitor: Shape::area / Cell2::area / State::score vs shoelace, exact union-of-discs (Green's theorem, grid self-tested) and |A x B| on oracle-valid packings, incl. state objects edited over histories (shape replaced, clone, JSON) multi-site states of mixed multiplicity, and ranking through the states' own Ord",
         "Exploration: ~0.25M (quick) / ~25M (thorough) shapes and ~0.1M / ~4M oracle-valid states (as generated and shrunk to first contact); score must equal copies x true area / cell area to 1e-9 and stay <= 1. One open known finding (three discs sharing a point) is reported as KNOWN-FINDING, any other disagreement is a violation.",
         "The union-area oracle is checked against a 1200x1200 grid count at start-up (a disagreement makes the run inconclusive).",
         "DESIGN.md 5 C02"),
 "C04": ("runtime monitor: placed point sets of hard and LJ states, incl. after chained optimisation via clone() along histories of edits of one state object, and for states read from JSON with any lattice of the family, mapped by every ITA operation in Cartesian form",
         "Exploration: ~0.3M (quick) / ~25M (thorough) states with chiral test shapes (handedness-sensitive) and the CLI's shapes, plus thousands of states after 1-3 chained optimisation stages read back through JSON; every operation must be orthogonal for the current cell and map the set of placed shapes onto itself modulo the lattice.",
         "Trusts the ITA table (C16) and the lattice model; placements are taken from cartesian_positions().",
         "DESIGN.md 5 C04"),
 "C12": ("differential runtime monitor: Intersect::intersects (both argument orders, moved frames, two-step placements, JSON-loaded shapes) vs separating-axis depth / centre distance, with constructed alignments on regular and irregular convex polygons",
         "Exploration: ~2.5M (quick) / ~250M (thorough) placed pairs: random and constructed (coincident, parallel edges slid with face contact at 2 r_in(1 +- 1e-12..1e-3), shared vertex, vertex on edge, mirror images, disc contact) under identity / k pi/4 / far-from-origin / reflected frames. An answer is required only when |depth| > 1e-9.",
         "Convex shapes only (SAT). Oracle depth is computed from the library-placed coordinates, which are themselves compared with the base geometry under the transform.",
         "DESIGN.md 5 C12"),
 "C13": ("differential runtime monitor: LJ2/LJShape2 energies vs the shifted truncated 12-6 law, symmetry, cutoff, rigid-motion invariance, golden-section minimum",
         "Exploration: ~2M (quick) / ~200M (thorough) particle pairs over sigma, epsilon, cutoff, like and unlike pairs, distances log-uniform and within ulps of the cutoff, plus molecule-pair sums and the uncut minimum located on library values.",
         "For unlike particles only symmetry, cutoff behaviour and distance-dependence are required (the property fixes no mixing rule).",
         "DESIGN.md 5 C13"),
 # id: (technique, level text, level note, design_ref)
 "C14": ("differential runtime monitor: Cell2 public methods on JSON-deserialised cells vs independent lattice model; chains of cells sharing a, b, angle or area bit for bit; iterator-protocol monitor on periodic_images",
         "Exploration: every Cell2 view (to_cartesian*, periodic_images as a set, area, centre, corners) is compared with A=(a,0), B=(b cos t, b sin t) on ~0.8M (quick) / ~100M (thorough) random and special cells, placements and shell counts. Holds on the executions produced; the real-number quantifier is sampled.",
         "Trusts the 30-line lattice model in harness/src/oracle/lattice.rs and f64 arithmetic to 1e-12 relative.",
         "DESIGN.md 5 C14"),
 "C15": ("runtime monitor on relative_positions() of JSON-built states vs ITA operations, incl. ulp-level boundary inputs, set/reset/sample histories on one reused state, and an iterator-protocol monitor (next/nth/skip/step_by/count/last vs the collected sequence)",
         "Exploration: placements of ~1.6M (quick) / ~190M (thorough) sites - uniform, exactly on faces and special positions, 1-4 ulps either side of +-1/2, denormal negatives - are matched one-to-one to the ITA operations, checked for canonical-cell membership and for invariance under whole-lattice shifts / 2pi turns.",
         "Trusts the ITA table (also checked by C16) and exact transport of doubles through serde_json::Value.",
         "DESIGN.md 5 C15"),
 "C16": ("exhaustive runtime enumeration of the parsed group tables against an independent ITA table, repeated in fresh child processes at the end of random histories of user-defined groups",
         "Finite and exhaustive: all 7 groups, all operations, all ordered pairs (closure, inverses), content counts, family and cell invariance, read through the same path the CLI uses; the same enumeration at the end of 32 (quick) / 640 (thorough) process histories in which user groups carrying built-in names are used first.",
         "Trusts the transcription of the ITA general positions in harness/src/oracle/groups.rs.",
         "DESIGN.md 5 C16"),
 "C17": ("grammar-enumerating + random-input runtime monitor on Transform2::from_operations under catch_unwind, incl. every Unicode scalar value at 9 parser positions",
         "Exploration, exhaustive per component: every non-empty subset/order/sign of {x, y, p[/q]} terms under spacing/parenthesis formats is rendered from a structured description whose denoted map is known by construction and compared at 6 points; arbitrary strings (random bytes, unicode, 20k chars, division by zero) must return Ok/Err. ~0.3M strings quick, ~20M thorough.",
         "The reading of 'the grammar' (one constant per component, coefficients +-1, no whitespace outside the outer parentheses) is the harness's; panics are observed via catch_unwind.",
         "DESIGN.md 5 C17"),
}

PENDING_REASON = "monitor not built yet in this revision (work in progress; see DESIGN.md section 5 for its design)"
ALL = ["C%02d" % i for i in range(1, 21)]

def main():
    checks = []
    for pid in ALL:
        if pid not in CHECKS:
            continue
        tech, text, note, ref = CHECKS[pid]
        checks.append({
            "property_id": pid,
            "quick_cmd": f"./check {pid} --tier quick",
            "thorough_cmd": f"./check {pid} --tier thorough",
            "evidence_file": f"/verif/evidence/{pid}.json",
            "replay_cmd_template": f"./check {pid} --replay {{path}}",
            "engine": "pv",
            "level_claimed": {"category": "exploration", "text": text, "design_ref": ref},
            "level_note": note,
            "technique": tech,
        })
    na = [{"property_id": p, "reason": PENDING_REASON} for p in ALL if p not in CHECKS]
    if not na:
        na = []
    m = {
        "version": 1,
        "setup_cmd": "./setup.sh",
        "hooks": {
            "guard": "packing_verif",
            "enable": "RUSTFLAGS=\"--cfg packing_verif\" cargo build --release --offline --bin packing --target-dir /verif/.build/cli (done by ./check)",
            "baseline_off_cmd": "cd /repo && cargo nextest run --workspace --no-fail-fast --offline",
            "source_commits": HOOK_COMMITS,
            "add_only": True,
        },
        "engines": [{
            "name": "pv",
            "path": "/verif/harness",
            "serves_properties": [c["property_id"] for c in checks],
            "kind_free_text": "Rust harness linking /repo by path: workload generators, independent oracles (harness/src/oracle), boundary observers (Spy/Scripted State implementations, CLI runner), trace monitor; sanitizer legs (TSan, Miri, memcheck) driven from ./check",
        }],
        "checks": checks,
        "not_applicable": na,
        "notes": "Technique family: runtime monitoring and sanitizers. Exit codes: 0 held, 1 violation (VIOLATION line + replay file), 2 inconclusive (INCONCLUSIVE line; never a VIOLATION line). Known findings: /verif/known_findings.json.",
    }
    json.dump(m, open("/verif/MANIFEST.json", "w"), indent=1)
    print("claimed:", [c["property_id"] for c in checks])

HOOK_COMMITS = ["b06e964"]
if __name__ == "__main__":
    main()
