#!/usr/bin/env bash
# tools/seedtest.sh <PROP> <VARIANT> [checks...]   e.g. tools/seedtest.sh C17 A  [C17 C04]
# 1. confirms the seeded change in the scratch worktree /tmp/wt/<PROP>: baseline passes with
#    it, demo fails with it and passes without it;
# 2. applies it to /repo, runs the named checks (default: the property's own, quick),
#    and undoes it straight afterwards.
set -u
P=$1; VAR=$2; shift 2
CHECKS=("$@"); [ ${#CHECKS[@]} -gt 0 ] || CHECKS=("$P")
WT=/tmp/wt/$P
SRC=/tmp/seedout/$P/$VAR
[ -d "$SRC" ] || SRC=/verif/seeded/$P-$VAR
PATCH=$SRC/patch.diff
DEMO=$(ls $SRC/*.rs 2>/dev/null | head -1)
OUT=/tmp/seedout/$P/$VAR/confirm.log; mkdir -p "$(dirname $OUT)"; : > $OUT
say() { echo "$@" | tee -a $OUT; }
if [ "${SKIP_CONFIRM:-0}" != 1 ]; then
  [ -d "$WT" ] || git -C /repo worktree add --detach "$WT" HEAD >/dev/null 2>&1
  cd "$WT" || exit 2
  git checkout -q -- . ; rm -f tests/seed_demo*.rs
  git apply "$PATCH" || { say "PATCH DOES NOT APPLY in worktree"; exit 2; }
  base=$(cargo nextest run --workspace --no-fail-fast --offline 2>&1 | grep -E "^\s*Summary" | tail -1)
  say "with change, baseline: $base"
  name=$(basename "$DEMO" .rs)
  cp "$DEMO" tests/
  with=$(cargo nextest run --offline --no-fail-fast --test "$name" 2>&1 | grep -E "^\s*Summary" | tail -1)
  say "with change, demo:     $with"
  git checkout -q -- .
  without=$(cargo nextest run --offline --no-fail-fast --test "$name" 2>&1 | grep -E "^\s*Summary" | tail -1)
  say "without change, demo:  $without"
  rm -f tests/"$name".rs
fi
cd /verif
if [ -n "$(git -C /repo status --porcelain -- src Cargo.toml)" ]; then say "/repo not clean, abort"; exit 2; fi
git -C /repo apply "$PATCH" || { say "PATCH DOES NOT APPLY in /repo"; exit 2; }
for c in "${CHECKS[@]}"; do
  mkdir -p /tmp/seedout/evid_backup; cp -f evidence/$c.json /tmp/seedout/evid_backup/ 2>/dev/null
  res=$(./check "$c" --tier quick 2>&1 | grep -E "^(VIOLATION|INCONCLUSIVE|HELD|KNOWN-FINDING)" | sort | uniq -c | head -8)
  say "check $c on seeded /repo: $res"
  cp -f /tmp/seedout/evid_backup/$c.json evidence/ 2>/dev/null
done
git -C /repo checkout -- .
say "repo restored: $(git -C /repo status --porcelain | wc -l) dirty files"
