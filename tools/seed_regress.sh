#!/usr/bin/env bash
# tools/seed_regress.sh [id ...]: re-apply every kept seeded change to the repository
# (PV_REPO / VP_RUN_REPO snapshot, default /repo), run the quick checks named in its meta.json
# "caught_by" (sanitizer-leg seeds: the legs), undo, and report one line per seed.
set -u
V="$(cd "$(dirname "${BASH_SOURCE[0]}")/.." && pwd)"
if [ -n "${VP_RUN_REPO:-}" ]; then export PV_REPO="$VP_RUN_REPO"; fi
REPO="${PV_REPO:-/repo}"
IDS=("$@"); [ ${#IDS[@]} -gt 0 ] || IDS=($(ls "$V/seeded"))
mkdir -p "$V/.build/logs"
for id in "${IDS[@]}"; do
  d="$V/seeded/$id"; [ -f "$d/patch.diff" ] || continue
  if grep -q '"obsolete"' "$d/meta.json"; then echo "$id: OBSOLETE (see meta.json), skipped"; continue; fi
  if [ -n "$(git -C "$REPO" status --porcelain -- src Cargo.toml)" ]; then echo "$id: repository not clean, abort"; exit 2; fi
  if ! git -C "$REPO" apply "$d/patch.diff" 2>/dev/null; then
    if ! git -C "$REPO" apply -3 "$d/patch.diff" >/dev/null 2>&1; then echo "$id: PATCH DOES NOT APPLY"; git -C "$REPO" checkout -q -- . 2>/dev/null; git -C "$REPO" reset -q --hard >/dev/null 2>&1; continue; fi
    git -C "$REPO" reset -q >/dev/null 2>&1
  fi
  checks=$(python3 -c "
import json,re,sys
m=json.load(open('$d/meta.json'))
print(' '.join(sorted({re.match(r'C\d\d',c).group(0) for c in m.get('caught_by',[]) if re.match(r'C\d\d',c)})))")
  res=""
  if [ -z "$checks" ]; then
    # kept as a documented limit (meta.json: caught_by empty): run the property's own check
    p=${id%%-*}
    out=$(VERIF_SEED=${VERIF_SEED:-0} "$V/check" "$p" --tier quick 2>&1)
    v=$(echo "$out" | grep -cE "^VIOLATION")
    res=" $p:$([ "$v" -gt 0 ] && echo CAUGHT-NOW || echo EXPECTED-MISS)"
  fi
  for c in $checks; do
    if grep -q "thorough:" "$d/meta.json" && echo "$id" | grep -q -- "-M"; then
      PV_DIR="$V" PV_REPO="$REPO" "$V/tools/san_legs.sh" "$c" "$V/.build/san/regress-$id.json" > "$V/.build/logs/regress-$id-$c.log" 2>&1
      n=$(python3 -c "import json;print(sum(l['reports'] for l in json.load(open('$V/.build/san/regress-$id.json'))['legs']))")
      res="$res $c(san-legs):reports=$n"
    else
      out=$(VERIF_SEED=${VERIF_SEED:-0} "$V/check" "$c" --tier quick 2>&1)
      v=$(echo "$out" | grep -cE "^VIOLATION"); h=$(echo "$out" | grep -cE "^HELD"); i=$(echo "$out" | grep -cE "^INCONCLUSIVE")
      res="$res $c:$([ "$v" -gt 0 ] && echo CAUGHT || ([ "$h" -gt 0 ] && echo MISSED || echo INCONCLUSIVE))"
    fi
  done
  git -C "$REPO" checkout -q -- .
  echo "$id ->$res"
done
