#!/usr/bin/env python3
"""tools/keepseed.py PROP VAR 'what it needs to manifest' [caught_by...]  -> /verif/seeded/PROP-VAR/"""
import sys, os, shutil, json, glob, re
p, var, needs = sys.argv[1], sys.argv[2], sys.argv[3]
caught = sys.argv[4:]
src = f"/tmp/seedout/{p}/{var}"
dst = f"/verif/seeded/{p}-{var}"
os.makedirs(dst, exist_ok=True)
shutil.copy(f"{src}/patch.diff", dst)
demos = []
for f in glob.glob(f"{src}/*.rs") + glob.glob(f"{src}/*.sh"):
    shutil.copy(f, dst); demos.append(os.path.basename(f))
if os.path.exists(f"{src}/README.md"):
    shutil.copy(f"{src}/README.md", f"{dst}/AUTHOR_NOTES.md")
log = open(f"{src}/confirm.log").read() if os.path.exists(f"{src}/confirm.log") else ""
checks = {}
for m in re.finditer(r"check (C\d\d) on seeded /repo:(.*?)(?=\ncheck |\nrepo restored|\Z)", log, re.S):
    body = m.group(2)
    checks[m.group(1)] = "VIOLATION" if "VIOLATION" in body else ("INCONCLUSIVE" if "INCONCLUSIVE" in body else ("HELD" if "HELD" in body else "?"))
meta = {
    "id": f"{p}-{var}",
    "breaks_property": p,
    "origin": "independent sub-agent given only the property text and a scratch worktree",
    "needs_to_manifest": needs,
    "demonstration": demos,
    "confirmed_by_me": {
        "where": f"scratch worktree /tmp/wt/{p} (removed afterwards)",
        "commands": ["git apply patch.diff", "cargo nextest run --workspace --no-fail-fast --offline", "cargo nextest run --offline --test <demo>  (with and without the change)"],
        "log": [l for l in log.splitlines() if l.startswith(("with change", "without change"))],
    },
    "checks_run_against_it": checks,
    "caught_by": caught or [c for c, v in checks.items() if v == "VIOLATION"],
    "how_checks_were_run": "git -C /repo apply patch.diff; ./check <ID> --tier quick; git -C /repo checkout -- .",
}
json.dump(meta, open(f"{dst}/meta.json", "w"), indent=1)
print(dst, meta["caught_by"], checks)
