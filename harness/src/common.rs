//! Shared infrastructure: argument handling, seeded randomness, evidence accumulation,
//! three-valued verdicts, known findings and replay files.

use std::collections::{BTreeMap, HashSet};
use std::path::PathBuf;
use std::sync::Mutex;
use std::time::Instant;

use rand::SeedableRng;
use rand_pcg::Pcg64Mcg;
use serde_json::{json, Value};

pub fn verif_dir() -> String {
    std::env::var("PV_DIR").unwrap_or_else(|_| "/verif".to_string())
}

#[derive(Clone, Copy, PartialEq, Eq, Debug)]
pub enum Tier {
    Quick,
    Thorough,
}

impl Tier {
    pub fn name(self) -> &'static str {
        match self {
            Tier::Quick => "quick",
            Tier::Thorough => "thorough",
        }
    }
    /// pick a budget by tier (PV_BUDGET_DIV=n divides it: used by the coverage measurement,
    /// which needs reach, not volume)
    pub fn pick<T: Budget>(self, quick: T, thorough: T) -> T {
        let v = match self {
            Tier::Quick => quick,
            Tier::Thorough => thorough,
        };
        match std::env::var("PV_BUDGET_DIV").ok().and_then(|s| s.parse::<u64>().ok()) {
            Some(n) if n > 1 => v.div(n),
            _ => v,
        }
    }
}

pub trait Budget {
    fn div(self, n: u64) -> Self;
}
impl Budget for u64 {
    fn div(self, n: u64) -> u64 {
        (self / n).max(1)
    }
}
impl Budget for usize {
    fn div(self, n: u64) -> usize {
        (self / n as usize).max(1)
    }
}

#[derive(Clone, Debug)]
pub struct Args {
    pub prop: String,
    pub tier: Tier,
    pub seed: u64,
    pub replay: Option<PathBuf>,
    pub cli: Option<PathBuf>,
    pub extra: BTreeMap<String, String>,
}

pub fn parse_args() -> Args {
    let mut it = std::env::args().skip(1);
    let prop = it.next().unwrap_or_else(|| usage());
    let mut a = Args {
        prop,
        tier: Tier::Quick,
        seed: std::env::var("VERIF_SEED")
            .ok()
            .and_then(|s| s.trim().parse::<i64>().ok())
            .map(|v| v as u64)
            .unwrap_or(0),
        replay: None,
        cli: std::env::var("PV_CLI").ok().map(PathBuf::from),
        extra: BTreeMap::new(),
    };
    if let Ok(t) = std::env::var("VERIF_TIER") {
        if t == "thorough" {
            a.tier = Tier::Thorough;
        }
    }
    while let Some(k) = it.next() {
        match k.as_str() {
            "--tier" => {
                a.tier = match it.next().as_deref() {
                    Some("thorough") => Tier::Thorough,
                    Some("quick") => Tier::Quick,
                    _ => usage(),
                }
            }
            "--seed" => a.seed = it.next().and_then(|s| s.parse().ok()).unwrap_or_else(|| usage()),
            "--replay" => a.replay = Some(PathBuf::from(it.next().unwrap_or_else(|| usage()))),
            "--cli" => a.cli = Some(PathBuf::from(it.next().unwrap_or_else(|| usage()))),
            k if k.starts_with("--") => {
                let v = it.next().unwrap_or_else(|| usage());
                a.extra.insert(k[2..].to_string(), v);
            }
            _ => usage(),
        }
    }
    a
}

fn usage() -> ! {
    eprintln!("usage: pv <C01..C20|selftest> [--tier quick|thorough] [--seed N] [--replay FILE] [--cli PATH]");
    std::process::exit(2)
}

/// Deterministic generator for (seed, stream).  All workload randomness derives from it.
pub fn rng_for(seed: u64, stream: u64) -> Pcg64Mcg {
    // splitmix-style mixing so that neighbouring seeds/streams are unrelated
    let mut z = seed
        .wrapping_mul(0x9E37_79B9_7F4A_7C15)
        .wrapping_add(stream.wrapping_mul(0xBF58_476D_1CE4_E5B9))
        .wrapping_add(0x94D0_49BB_1331_11EB);
    z = (z ^ (z >> 30)).wrapping_mul(0xBF58_476D_1CE4_E5B9);
    z = (z ^ (z >> 27)).wrapping_mul(0x94D0_49BB_1331_11EB);
    z ^= z >> 31;
    Pcg64Mcg::seed_from_u64(z)
}

pub fn hash64(parts: &[u64]) -> u64 {
    let mut h: u64 = 0xcbf2_9ce4_8422_2325;
    for p in parts {
        let mut z = p.wrapping_add(0x9E37_79B9_7F4A_7C15).wrapping_add(h);
        z = (z ^ (z >> 30)).wrapping_mul(0xBF58_476D_1CE4_E5B9);
        z = (z ^ (z >> 27)).wrapping_mul(0x94D0_49BB_1331_11EB);
        h = z ^ (z >> 31);
    }
    h
}

/// quantise a real to a grid for "distinct case" hashing
pub fn q(x: f64, step: f64) -> u64 {
    if !x.is_finite() {
        return u64::MAX;
    }
    ((x / step).round() as i64) as u64
}

pub fn hash_str(s: &str) -> u64 {
    let mut h: u64 = 0xcbf2_9ce4_8422_2325;
    for b in s.as_bytes() {
        h ^= *b as u64;
        h = h.wrapping_mul(0x100_0000_01b3);
    }
    h
}

#[derive(Clone, Debug)]
pub struct Violation {
    /// which workload/oracle produced it (also selects the replay routine)
    pub kind: String,
    /// call site + predicate; matched against known findings
    pub signature: String,
    /// everything needed to re-run this single case
    pub case: Value,
    /// what was observed
    pub detail: Value,
}

/// Per-shard statistics; merged into the context.
#[derive(Default)]
pub struct Stats {
    pub evaluations: u64,
    pub nontrivial: u64,
    pub distinct: HashSet<u64>,
    pub samples: Vec<Value>,
    pub counters: BTreeMap<String, u64>,
    pub violations: Vec<Violation>,
    pub inconclusive: Vec<String>,
}

pub const DISTINCT_CAP: usize = 3_000_000;
pub const SAMPLE_CAP: usize = 6;
pub const VIOLATION_CAP: usize = 40;

impl Stats {
    pub fn new() -> Self {
        Self::default()
    }
    pub fn eval(&mut self) {
        self.evaluations += 1;
    }
    /// record a non-trivial case with its quantised identity
    pub fn nontrivial(&mut self, h: u64) {
        self.nontrivial += 1;
        if self.distinct.len() < DISTINCT_CAP {
            self.distinct.insert(h);
        }
    }
    pub fn count(&mut self, k: &str) {
        *self.counters.entry(k.to_string()).or_insert(0) += 1;
    }
    pub fn add(&mut self, k: &str, n: u64) {
        *self.counters.entry(k.to_string()).or_insert(0) += n;
    }
    pub fn sample(&mut self, v: impl FnOnce() -> Value) {
        if self.samples.len() < SAMPLE_CAP {
            self.samples.push(v());
        }
    }
    pub fn violation(&mut self, v: Violation) {
        self.count(&format!("violations[{}]", v.signature));
        let same = self.violations.iter().filter(|o| o.signature == v.signature).count();
        if same < 3 && self.violations.len() < VIOLATION_CAP {
            self.violations.push(v);
        }
    }
    pub fn merge(&mut self, o: Stats) {
        self.evaluations += o.evaluations;
        self.nontrivial += o.nontrivial;
        for h in o.distinct {
            if self.distinct.len() >= DISTINCT_CAP {
                break;
            }
            self.distinct.insert(h);
        }
        for s in o.samples {
            if self.samples.len() < SAMPLE_CAP * 4 {
                self.samples.push(s);
            }
        }
        for (k, v) in o.counters {
            *self.counters.entry(k).or_insert(0) += v;
        }
        for v in o.violations {
            let same = self.violations.iter().filter(|x| x.signature == v.signature).count();
            if same < 3 && self.violations.len() < VIOLATION_CAP {
                self.violations.push(v);
            }
        }
        self.inconclusive.extend(o.inconclusive);
    }
}

#[derive(Clone, Debug)]
pub struct KnownFinding {
    pub property: String,
    pub status: String,
    pub signature: String,
    pub what: String,
}

pub fn load_known_findings(prop: &str) -> Vec<KnownFinding> {
    let p = format!("{}/known_findings.json", verif_dir());
    let txt = match std::fs::read_to_string(&p) {
        Ok(t) => t,
        Err(_) => return vec![],
    };
    let v: Value = match serde_json::from_str(&txt) {
        Ok(v) => v,
        Err(e) => {
            eprintln!("known_findings.json unreadable: {}", e);
            return vec![];
        }
    };
    let mut out = vec![];
    if let Some(arr) = v.get("findings").and_then(|a| a.as_array()) {
        for f in arr {
            let g = |k: &str| f.get(k).and_then(|s| s.as_str()).unwrap_or("").to_string();
            if g("property") == prop {
                out.push(KnownFinding {
                    property: g("property"),
                    status: g("status"),
                    signature: g("signature"),
                    what: g("what"),
                });
            }
        }
    }
    out
}

pub struct Ctx {
    pub prop: String,
    pub tier: Tier,
    pub seed: u64,
    pub start: Instant,
    pub stats: Mutex<Stats>,
    pub rule: Mutex<String>,
    pub level: Mutex<String>,
    pub exhaustive: Mutex<bool>,
    pub assumptions: Mutex<Vec<String>>,
    pub extras: Mutex<BTreeMap<String, Value>>,
    pub min_nontrivial: Mutex<u64>,
    pub args: Args,
}

impl Ctx {
    pub fn new(args: &Args) -> Ctx {
        Ctx {
            prop: args.prop.clone(),
            tier: args.tier,
            seed: args.seed,
            start: Instant::now(),
            stats: Mutex::new(Stats::new()),
            rule: Mutex::new(String::new()),
            level: Mutex::new("exploration".into()),
            exhaustive: Mutex::new(false),
            assumptions: Mutex::new(vec![]),
            extras: Mutex::new(BTreeMap::new()),
            min_nontrivial: Mutex::new(2),
            args: args.clone(),
        }
    }
    pub fn merge(&self, s: Stats) {
        self.stats.lock().unwrap().merge(s);
    }
    pub fn set_rule(&self, r: &str) {
        *self.rule.lock().unwrap() = r.to_string();
    }
    pub fn assume(&self, a: &str) {
        self.assumptions.lock().unwrap().push(a.to_string());
    }
    pub fn extra(&self, k: &str, v: Value) {
        self.extras.lock().unwrap().insert(k.to_string(), v);
    }
    pub fn set_min_nontrivial(&self, n: u64) {
        *self.min_nontrivial.lock().unwrap() = n;
    }
    pub fn inconclusive(&self, why: &str) {
        self.stats.lock().unwrap().inconclusive.push(why.to_string());
    }
    pub fn rng(&self, stream: u64) -> Pcg64Mcg {
        rng_for(self.seed, stream)
    }

    /// Write evidence, replay files; print verdict lines; return the exit code.
    pub fn finish(&self) -> i32 {
        let stats = std::mem::take(&mut *self.stats.lock().unwrap());
        let known = load_known_findings(&self.prop);
        let open: Vec<&KnownFinding> = known.iter().filter(|k| k.status == "open").collect();

        let mut unknown: Vec<&Violation> = vec![];
        let mut known_hits: BTreeMap<String, u64> = BTreeMap::new();
        for v in &stats.violations {
            if let Some(k) = open.iter().find(|k| k.signature == v.signature) {
                *known_hits.entry(k.signature.clone()).or_insert(0) += 1;
            } else {
                unknown.push(v);
            }
        }
        // total violation counts by signature (not capped)
        let mut total_viol: u64 = 0;
        let mut total_unknown: u64 = 0;
        for (k, n) in &stats.counters {
            if let Some(sig) = k.strip_prefix("violations[").and_then(|s| s.strip_suffix(']')) {
                total_viol += n;
                if !open.iter().any(|o| o.signature == sig) {
                    total_unknown += n;
                }
            }
        }

        let _ = std::fs::create_dir_all(format!("{}/replays", verif_dir()));
        let mut replay_paths = vec![];
        for (n, v) in unknown.iter().enumerate().take(8) {
            let path = format!("{}/replays/{}-{}-{}.json", verif_dir(), self.prop, self.seed, n);
            let body = json!({
                "property": self.prop, "kind": v.kind, "signature": v.signature,
                "case": v.case, "detail": v.detail, "seed": self.seed, "tier": self.tier.name(),
            });
            let _ = std::fs::write(&path, serde_json::to_string_pretty(&body).unwrap());
            replay_paths.push(path);
        }

        let distinct = stats.distinct.len() as u64;
        let wall = self.start.elapsed().as_secs_f64();
        let mut coverage = serde_json::Map::new();
        coverage.insert("evaluations".into(), json!(stats.evaluations));
        coverage.insert("distinct_nontrivial".into(), json!(distinct));
        coverage.insert("nontrivial_total".into(), json!(stats.nontrivial));
        coverage.insert("rule".into(), json!(*self.rule.lock().unwrap()));
        coverage.insert("samples".into(), json!(stats.samples));
        coverage.insert("exhaustive".into(), json!(*self.exhaustive.lock().unwrap()));
        coverage.insert("counters".into(), json!(stats.counters));
        for (k, v) in self.extras.lock().unwrap().iter() {
            coverage.insert(k.clone(), v.clone());
        }
        if !stats.inconclusive.is_empty() {
            coverage.insert("inconclusive".into(), json!(stats.inconclusive));
        }
        coverage.insert(
            "known_findings_observed".into(),
            json!(known_hits),
        );
        let ev = json!({
            "property_id": self.prop,
            "tier": self.tier.name(),
            "seed": self.seed as i64,
            "level": *self.level.lock().unwrap(),
            "coverage": Value::Object(coverage),
            "assumptions": *self.assumptions.lock().unwrap(),
            "wall_s": wall,
            "violations": total_unknown as i64,
            "violations_matching_known_findings": (total_viol - total_unknown) as i64,
        });
        if self.args.replay.is_none() {
            let _ = std::fs::create_dir_all(format!("{}/evidence", verif_dir()));
            let path = format!("{}/evidence/{}.json", verif_dir(), self.prop);
            if let Err(e) = std::fs::write(&path, serde_json::to_string_pretty(&ev).unwrap()) {
                println!("INCONCLUSIVE property={} reason=cannot write evidence: {}", self.prop, e);
                return 2;
            }
        }

        println!(
            "[{}] tier={} seed={} evaluations={} nontrivial={} distinct_nontrivial={} wall={:.1}s",
            self.prop,
            self.tier.name(),
            self.seed,
            stats.evaluations,
            stats.nontrivial,
            distinct,
            wall
        );
        for (k, v) in &stats.counters {
            println!("    {} = {}", k, v);
        }
        for k in &open {
            println!(
                "KNOWN-FINDING: property={} {} [signature={}; observed {} time(s) in this run]",
                self.prop,
                k.what,
                k.signature,
                stats
                    .counters
                    .get(&format!("violations[{}]", k.signature))
                    .copied()
                    .unwrap_or(0)
            );
        }
        if !unknown.is_empty() {
            for (v, p) in unknown.iter().zip(replay_paths.iter()) {
                println!("    violation kind={} signature={} detail={}", v.kind, v.signature, v.detail);
                println!("VIOLATION property={} replay={}", self.prop, p);
            }
            return 1;
        }
        if !stats.inconclusive.is_empty() {
            println!(
                "INCONCLUSIVE property={} reason={}",
                self.prop,
                stats.inconclusive.join("; ")
            );
            return 2;
        }
        if self.args.replay.is_none() {
            let min = *self.min_nontrivial.lock().unwrap();
            if distinct < min || stats.evaluations == 0 {
                println!(
                    "INCONCLUSIVE property={} reason=too few non-trivial observations ({} < {})",
                    self.prop, distinct, min
                );
                return 2;
            }
        }
        println!("HELD property={} on everything observed", self.prop);
        0
    }
}

/// Run `f(shard_index, rng)` for shards in parallel and merge the statistics.
pub fn par_shards<F>(ctx: &Ctx, stream_base: u64, shards: u64, f: F)
where
    F: Fn(u64, &mut Pcg64Mcg, &mut Stats) + Sync + Send,
{
    use rayon::prelude::*;
    let all: Vec<Stats> = (0..shards)
        .into_par_iter()
        .map(|i| {
            let mut rng = rng_for(ctx.seed, stream_base.wrapping_mul(1_000_003).wrapping_add(i));
            let mut st = Stats::new();
            // a panic that escapes a workload (library code called outside the places that expect
            // panics) must not take the other shards' observations with it: what this shard saw
            // so far is kept, the shard itself is inconclusive
            let r = std::panic::catch_unwind(std::panic::AssertUnwindSafe(|| f(i, &mut rng, &mut st)));
            if let Err(e) = r {
                let msg = e.downcast_ref::<String>().cloned().or_else(|| e.downcast_ref::<&str>().map(|s| s.to_string())).unwrap_or_else(|| "panic".into());
                st.inconclusive.push(format!("workload shard {} ended in a panic: {}", i, msg.chars().take(200).collect::<String>()));
            }
            st
        })
        .collect();
    for s in all {
        ctx.merge(s);
    }
}

/// A value near `v` from one of the classes of doubles that data arrives in: representable in
/// a narrower float (f32, or any mantissa cut to k bits), a dyadic fraction k/2^m, a short
/// decimal, an integer, a power of two.  Code that treats such values specially (shorter
/// encodings, fast paths, exact comparisons) is only reached through them.
pub fn snap_float<R: rand::Rng>(rng: &mut R, v: f64) -> f64 {
    if !v.is_finite() || v == 0. {
        return v;
    }
    let out = match rng.gen_range(0, 7) {
        0 => (v as f32) as f64,
        1 => {
            let m = rng.gen_range(1, 25);
            let s = 2f64.powi(m);
            (v * s).round() / s
        }
        2 => {
            let d = rng.gen_range(0usize, 9);
            format!("{:.*e}", d, v).parse().unwrap_or(v)
        }
        3 => v.round(),
        4 => v.signum() * 2f64.powi(v.abs().log2().round() as i32),
        5 => {
            // mantissa cut to k bits
            let k = rng.gen_range(1u32, 52);
            f64::from_bits(v.to_bits() & !((1u64 << (52 - k)) - 1))
        }
        _ => {
            // f32 value with a long decimal expansion: an odd multiple of a small power of two
            let m = rng.gen_range(8, 24);
            let s = 2f64.powi(m);
            let k = (v * s).round();
            let k = if (k as i64) % 2 == 0 { k + 1. } else { k };
            ((k / s) as f32) as f64
        }
    };
    if out.is_finite() {
        out
    } else {
        v
    }
}

pub fn f64_bits_vec(v: &[f64]) -> Vec<u64> {
    v.iter().map(|x| x.to_bits()).collect()
}

pub fn rel_diff(a: f64, b: f64) -> f64 {
    if a == b {
        return 0.;
    }
    let s = a.abs().max(b.abs());
    if s == 0. {
        0.
    } else {
        (a - b).abs() / s
    }
}
