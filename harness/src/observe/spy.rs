//! `Spy<S>`: a `State` that delegates to a real state and reports every `score()` call
//! (parameter vector read through the state's own basis handles, library score) to a sink.
//! The optimiser under test cannot tell it from the wrapped state.

use std::cmp::Ordering;
use std::sync::{Arc, Mutex};

use anyhow::Error;
use packing::traits::{Basis, State, ToSVG};
use packing::StandardBasis;
use serde::{Serialize, Serializer};
use svg::Document;

pub trait Sink<S>: Send {
    fn on_score(&mut self, inner: &S, v: &[f64], score: Option<f64>);
}

pub struct Spy<S: State> {
    pub inner: S,
    pub sink: Arc<Mutex<dyn Sink<S>>>,
}

impl<S: State> Spy<S> {
    pub fn new(inner: S, sink: Arc<Mutex<dyn Sink<S>>>) -> Self {
        Spy { inner, sink }
    }
}

impl<S: State> Clone for Spy<S> {
    fn clone(&self) -> Self {
        Spy { inner: self.inner.clone(), sink: self.sink.clone() }
    }
}

impl<S: State> std::fmt::Debug for Spy<S> {
    fn fmt(&self, f: &mut std::fmt::Formatter) -> std::fmt::Result {
        self.inner.fmt(f)
    }
}

impl<S: State> Serialize for Spy<S> {
    fn serialize<Z: Serializer>(&self, s: Z) -> Result<Z::Ok, Z::Error> {
        self.inner.serialize(s)
    }
}

impl<S: State> PartialEq for Spy<S> {
    fn eq(&self, o: &Self) -> bool {
        self.inner.eq(&o.inner)
    }
}
impl<S: State> Eq for Spy<S> {}
impl<S: State> PartialOrd for Spy<S> {
    fn partial_cmp(&self, o: &Self) -> Option<Ordering> {
        self.inner.partial_cmp(&o.inner)
    }
}
impl<S: State> Ord for Spy<S> {
    fn cmp(&self, o: &Self) -> Ordering {
        self.inner.cmp(&o.inner)
    }
}

impl<S: State> ToSVG for Spy<S> {
    type Value = Document;
    fn as_svg(&self) -> Document {
        self.inner.as_svg()
    }
}

impl<S: State> State for Spy<S> {
    fn score(&self) -> Option<f64> {
        let s = self.inner.score();
        let v: Vec<f64> = self.inner.generate_basis().iter().map(|b| b.get_value()).collect();
        if let Ok(mut k) = self.sink.lock() {
            k.on_score(&self.inner, &v, s);
        }
        s
    }
    fn generate_basis(&self) -> Vec<StandardBasis> {
        self.inner.generate_basis()
    }
    fn total_shapes(&self) -> usize {
        self.inner.total_shapes()
    }
    fn as_positions(&self) -> Result<String, Error> {
        self.inner.as_positions()
    }
}

/// Read the free parameters of any state (opaque `impl State` included).
pub fn params_of<T: State>(s: &T) -> Vec<f64> {
    s.generate_basis().iter().map(|b| b.get_value()).collect()
}
