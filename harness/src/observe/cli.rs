//! Run the real `packing` binary (built from /repo with the verification hooks on) and
//! collect everything visible at the process boundary.
use std::io::Read;
use std::path::{Path, PathBuf};
use std::process::{Command, Stdio};
use std::time::{Duration, Instant};

#[derive(Debug, Clone, Default)]
pub struct Out {
    pub argv: Vec<String>,
    pub status: Option<i32>,
    pub signal: bool,
    pub timed_out: bool,
    pub stderr: String,
    pub stdout: String,
    pub json: Option<String>,
    pub svg: Option<String>,
    pub hook_log: Vec<String>,
    pub wall_s: f64,
}

impl Out {
    pub fn final_score_logged(&self) -> Option<String> {
        self.stderr
            .lines()
            .chain(self.stdout.lines())
            .find_map(|l| l.split("Final score: ").nth(1).map(|s| s.trim().to_string()))
    }
    pub fn panicked(&self) -> bool {
        self.status == Some(101) || self.stderr.contains("panicked at") || self.signal
    }
}

pub fn scratch_dir() -> PathBuf {
    let p = PathBuf::from(format!("{}/.build/scratch", crate::common::verif_dir()));
    let _ = std::fs::create_dir_all(&p);
    p
}

/// `pre`: options before the positional group (e.g. --replications 4 --steps 100);
/// `pos`: group, shape subcommand and its options; `env`: extra environment.
pub fn run(exe: &Path, tag: &str, pre: &[&str], pos: &[&str], env: &[(&str, String)], timeout_s: u64) -> Out {
    let dir = scratch_dir();
    let base = dir.join(format!("{}-{}", tag, std::process::id()));
    // Re-running into the same --outfile is the normal way to use the tool: every other run
    // (by tag) finds both output files already there, left by an earlier, much longer result.
    // What a run writes must be its own result and nothing else.
    if crate::common::hash_str(tag) % 2 == 0 {
        let filler = "0123456789abcdef".repeat(16 * 1024);
        let _ = std::fs::write(base.with_extension("json"), format!("{{\"left_over_from_an_earlier_run\":\"{}\"}}\n", filler));
        let _ = std::fs::write(base.with_extension("svg"), format!("<svg xmlns=\"http://www.w3.org/2000/svg\"><!-- left over from an earlier run {} --></svg>\n", filler));
        return run_inner(exe, &base, pre, pos, env, timeout_s, true, false);
    }
    run_with_outfile(exe, &base, pre, pos, env, timeout_s, true)
}

pub fn run_with_outfile(exe: &Path, base: &Path, pre: &[&str], pos: &[&str], env: &[(&str, String)], timeout_s: u64, cleanup: bool) -> Out {
    run_inner(exe, base, pre, pos, env, timeout_s, cleanup, true)
}

fn run_inner(exe: &Path, base: &Path, pre: &[&str], pos: &[&str], env: &[(&str, String)], timeout_s: u64, cleanup: bool, fresh: bool) -> Out {
    let log = PathBuf::from(format!("{}.hooklog", base.display()));
    let _ = std::fs::remove_file(&log);
    if fresh {
        let _ = std::fs::remove_file(base.with_extension("json"));
        let _ = std::fs::remove_file(base.with_extension("svg"));
    }
    let mut cmd = Command::new(exe);
    cmd.arg("--outfile").arg(base);
    for a in pre {
        cmd.arg(a);
    }
    for a in pos {
        cmd.arg(a);
    }
    cmd.env("PACKING_VERIF_LOG", &log);
    cmd.env_remove("RUST_LOG");
    for (k, v) in env {
        cmd.env(k, v);
    }
    cmd.stdin(Stdio::null()).stdout(Stdio::piped()).stderr(Stdio::piped());
    let mut out = Out { argv: std::iter::once("--outfile <f>".to_string()).chain(pre.iter().map(|s| s.to_string())).chain(pos.iter().map(|s| s.to_string())).collect(), ..Default::default() };
    let t0 = Instant::now();
    let mut child = match cmd.spawn() {
        Ok(c) => c,
        Err(e) => {
            out.stderr = format!("spawn failed: {}", e);
            return out;
        }
    };
    // drain pipes in threads so a chatty child cannot block
    let mut so = child.stdout.take().unwrap();
    let mut se = child.stderr.take().unwrap();
    let h1 = std::thread::spawn(move || {
        let mut s = String::new();
        let _ = so.read_to_string(&mut s);
        s
    });
    let h2 = std::thread::spawn(move || {
        let mut s = String::new();
        let _ = se.read_to_string(&mut s);
        s
    });
    loop {
        match child.try_wait() {
            Ok(Some(st)) => {
                out.status = st.code();
                #[cfg(unix)]
                {
                    use std::os::unix::process::ExitStatusExt;
                    out.signal = st.signal().is_some();
                }
                break;
            }
            Ok(None) => {
                if t0.elapsed() > Duration::from_secs(timeout_s) {
                    let _ = child.kill();
                    let _ = child.wait();
                    out.timed_out = true;
                    out.signal = false;
                    break;
                }
                std::thread::sleep(Duration::from_millis(5));
            }
            Err(_) => break,
        }
    }
    out.stdout = h1.join().unwrap_or_default();
    out.stderr = h2.join().unwrap_or_default();
    out.wall_s = t0.elapsed().as_secs_f64();
    out.json = std::fs::read_to_string(base.with_extension("json")).ok();
    out.svg = std::fs::read_to_string(base.with_extension("svg")).ok();
    out.hook_log = std::fs::read_to_string(&log).map(|t| t.lines().map(|l| l.to_string()).collect()).unwrap_or_default();
    if cleanup {
        let _ = std::fs::remove_file(&log);
        let _ = std::fs::remove_file(base.with_extension("json"));
        let _ = std::fs::remove_file(base.with_extension("svg"));
    }
    out
}


/// The same run with standard streams that cannot be written to: `kind` 1 stdout on a full
/// device, 2 stderr on a full device, 3 stdout a pipe whose reader has gone, 4 both on a full
/// device.  Only the exit status and the files can be observed.
pub fn run_stdio(exe: &Path, tag: &str, pre: &[&str], pos: &[&str], env: &[(&str, String)], timeout_s: u64, kind: u8) -> Out {
    let dir = scratch_dir();
    let base = dir.join(format!("{}-stdio{}-{}", tag, kind, std::process::id()));
    let _ = std::fs::remove_file(base.with_extension("json"));
    let _ = std::fs::remove_file(base.with_extension("svg"));
    let full = || std::fs::OpenOptions::new().write(true).open("/dev/full").map(Stdio::from).unwrap_or_else(|_| Stdio::null());
    let gone = || -> Stdio {
        // the write end of a pipe whose only reader has exited
        match Command::new("true").stdin(Stdio::piped()).spawn() {
            Ok(mut c) => {
                let w = c.stdin.take();
                let _ = c.wait();
                w.map(Stdio::from).unwrap_or_else(Stdio::null)
            }
            Err(_) => Stdio::null(),
        }
    };
    let mut cmd = Command::new(exe);
    cmd.arg("--outfile").arg(&base);
    for a in pre.iter().chain(pos.iter()) {
        cmd.arg(a);
    }
    cmd.env_remove("RUST_LOG").env_remove("PACKING_VERIF_LOG");
    for (k, v) in env {
        cmd.env(k, v);
    }
    cmd.stdin(Stdio::null());
    match kind {
        1 => {
            cmd.stdout(full()).stderr(Stdio::piped());
        }
        2 => {
            cmd.stdout(Stdio::null()).stderr(full());
        }
        3 => {
            cmd.stdout(gone()).stderr(Stdio::piped());
        }
        _ => {
            cmd.stdout(full()).stderr(full());
        }
    }
    let mut out = Out { argv: std::iter::once(format!("--outfile <f> [stdio kind {}]", kind)).chain(pre.iter().map(|s| s.to_string())).chain(pos.iter().map(|s| s.to_string())).collect(), ..Default::default() };
    let t0 = Instant::now();
    let child = match cmd.spawn() {
        Ok(c) => c,
        Err(e) => {
            out.stderr = format!("spawn failed: {}", e);
            return out;
        }
    };
    // (short runs: wait_with_output drains stderr if it is piped)
    let (tx, rx) = std::sync::mpsc::channel();
    let pid = child.id();
    std::thread::spawn(move || {
        let _ = tx.send(child.wait_with_output());
    });
    match rx.recv_timeout(Duration::from_secs(timeout_s)) {
        Ok(Ok(o)) => {
            out.status = o.status.code();
            #[cfg(unix)]
            {
                use std::os::unix::process::ExitStatusExt;
                out.signal = o.status.signal().is_some();
            }
            out.stderr = String::from_utf8_lossy(&o.stderr).into_owned();
        }
        _ => {
            let _ = Command::new("kill").arg("-9").arg(pid.to_string()).status();
            out.timed_out = true;
        }
    }
    out.wall_s = t0.elapsed().as_secs_f64();
    out.json = std::fs::read_to_string(base.with_extension("json")).ok();
    out.svg = std::fs::read_to_string(base.with_extension("svg")).ok();
    let _ = std::fs::remove_file(base.with_extension("json"));
    let _ = std::fs::remove_file(base.with_extension("svg"));
    out
}
