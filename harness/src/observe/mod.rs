pub mod scripted;
pub mod spy;
pub mod trace;
pub mod cli;
