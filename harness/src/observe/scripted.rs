//! `Scripted`: a synthetic `State` with k bounded parameters whose score follows a script.
//! The script depends only on the call number and on the script's own parameters - never on
//! the optimiser's random stream.  No nalgebra type is touched between SharedValue,
//! StandardBasis and optimise_state, so these runs are also Miri-clean with full validation.

use std::cmp::Ordering;
use std::sync::{Arc, Mutex};

use anyhow::Error;
use packing::traits::{Basis, State, ToSVG};
use packing::{SharedValue, StandardBasis};
use serde::{Deserialize, Serialize, Serializer};
use svg::Document;

#[derive(Clone, Debug, Serialize, Deserialize, PartialEq)]
pub enum Script {
    /// scores given by a repeating pattern of letters:
    /// B better than everything so far, E equal to the best so far, W worse than everything
    /// so far, N undefined.  `gap` is the spacing of the score ladder.
    Pattern { pattern: String, gap: f64 },
    /// anchor / probe / sentinel cycle: anchor = strictly better (always accepted), probe =
    /// anchor - d (fate is the observation), sentinel = undefined (certain rejection).
    /// d for the probe in inner loop l is `d[min(l, len-1)]`; `inner` proposals per loop.
    /// `jam`: inner loops [from, to) in which every score is undefined (all proposals rejected)
    Probe {
        d: Vec<f64>,
        inner: u64,
        #[serde(default)]
        jam: Vec<(u64, u64)>,
    },
    /// smooth landscape: -(sum (x_i - c_i)^2), undefined when x_0 > wall
    Bowl { centre: Vec<f64>, wall: Option<f64> },
    /// like Pattern, but each letter is drawn by the state's own generator:
    /// probabilities (better, equal, worse, none); deterministic in `seed`
    Random { p: [f64; 4], seed: u64, gap: f64 },
}

pub struct ScriptState {
    /// scores already handed out, by vector: the state is a function of its parameters on
    /// every point visited (the optimiser re-scores the state it holds at the end of a run)
    pub memo: std::collections::HashMap<u64, Option<f64>>,
    pub ring: std::collections::VecDeque<(u64, Option<f64>)>,
    pub calls: u64,
    pub best: f64,
    pub worst: f64,
    pub anchor: f64,
    pub rng: u64,
}

pub trait ScriptSink: Send {
    fn on_score(&mut self, call: u64, v: &[f64], score: Option<f64>, label: char);
}

pub struct Scripted {
    pub vals: Vec<SharedValue>,
    pub bounds: Vec<(f64, f64)>,
    pub script: Script,
    pub st: Arc<Mutex<ScriptState>>,
    pub sink: Arc<Mutex<dyn ScriptSink>>,
    /// extra handles on parameters already handed out: (index, fraction of the range)
    pub aliases: Vec<(usize, f64)>,
    /// added to every score handed out: score ladders of a few ulps around a large value, or
    /// infinite scores throughout (a forbidden region marked with -inf)
    pub offset: f64,
}

pub const START_SCORE: f64 = 0.;

impl Scripted {
    pub fn new(init: &[f64], bounds: &[(f64, f64)], script: Script, sink: Arc<Mutex<dyn ScriptSink>>) -> Self {
        let seed = match &script {
            Script::Random { seed, .. } => *seed,
            _ => 0,
        };
        Scripted {
            vals: init.iter().map(|v| SharedValue::new(*v)).collect(),
            bounds: bounds.to_vec(),
            script,
            st: Arc::new(Mutex::new(ScriptState { memo: std::collections::HashMap::new(), ring: std::collections::VecDeque::new(), calls: 0, best: START_SCORE, worst: START_SCORE, anchor: START_SCORE, rng: seed | 1 })),
            sink,
            aliases: vec![],
            offset: 0.,
        }
    }
    pub fn values(&self) -> Vec<f64> {
        self.vals.iter().map(|v| v.get_value()).collect()
    }
}

fn xorshift(s: &mut u64) -> f64 {
    let mut x = *s;
    x ^= x << 13;
    x ^= x >> 7;
    x ^= x << 17;
    *s = x;
    (x >> 11) as f64 / (1u64 << 53) as f64
}

impl State for Scripted {
    fn score(&self) -> Option<f64> {
        let v = self.values();
        let mut st = self.st.lock().unwrap();
        let call = st.calls;
        st.calls += 1;
        let key = {
            let mut h: u64 = 0xcbf2_9ce4_8422_2325;
            for x in v.iter() {
                h = (h ^ x.to_bits()).wrapping_mul(0x100_0000_01b3);
                h ^= h >> 29;
            }
            h
        };
        let long_run = matches!(self.script, Script::Probe { .. });
        let known = if long_run { st.ring.iter().rev().find(|(k, _)| *k == key).map(|(_, s)| *s) } else { st.memo.get(&key).copied() };
        let (score, label): (Option<f64>, char) = if let (Some(s), true) = (known, call > 0) {
            (s, 'M')
        } else if call == 0 {
            match &self.script {
                Script::Bowl { centre, .. } => (Some(-v.iter().zip(centre.iter()).map(|(x, c)| (x - c) * (x - c)).sum::<f64>()), 'I'),
                _ => (Some(START_SCORE), 'I'),
            }
        } else {
            let letter = |st: &mut ScriptState, l: char, gap: f64| -> (Option<f64>, char) {
                match l {
                    'B' => {
                        st.best += gap;
                        (Some(st.best), 'B')
                    }
                    'E' => (Some(st.best), 'E'),
                    'W' => {
                        st.worst -= gap;
                        (Some(st.worst), 'W')
                    }
                    _ => (None, 'N'),
                }
            };
            match &self.script {
                Script::Pattern { pattern, gap } => {
                    let p = pattern.as_bytes();
                    let l = p[((call - 1) as usize) % p.len()] as char;
                    letter(&mut st, l, *gap)
                }
                Script::Random { p, gap, .. } => {
                    let u = xorshift(&mut st.rng);
                    let l = if u < p[0] {
                        'B'
                    } else if u < p[0] + p[1] {
                        'E'
                    } else if u < p[0] + p[1] + p[2] {
                        'W'
                    } else {
                        'N'
                    };
                    letter(&mut st, l, *gap)
                }
                Script::Probe { d, inner, jam } => {
                    let prop = call - 1; // 0-based proposal index
                    let l = (prop / inner.max(&1)) as usize;
                    let dl = d[l.min(d.len() - 1)];
                    let dmax = d.iter().cloned().fold(0., f64::max);
                    let jammed = jam.iter().any(|(a, b)| (l as u64) >= *a && (l as u64) < *b);
                    match if jammed { 2 } else { prop % 3 } {
                        0 => {
                            st.anchor += 4. * dmax;
                            (Some(st.anchor), 'A')
                        }
                        1 => (Some(st.anchor - dl), 'P'),
                        _ => (None, 'S'),
                    }
                }
                Script::Bowl { centre, wall } => {
                    if wall.map(|w| v[0] > w).unwrap_or(false) {
                        (None, 'N')
                    } else {
                        (Some(-v.iter().zip(centre.iter()).map(|(x, c)| (x - c) * (x - c)).sum::<f64>()), 'L')
                    }
                }
            }
        };
        // (memoised scores already carry the offset)
        let score = if self.offset != 0. && label != 'M' { score.map(|x| x + self.offset) } else { score };
        if label != 'M' {
            if long_run {
                st.ring.push_back((key, score));
                if st.ring.len() > 512 {
                    st.ring.pop_front();
                }
            } else {
                st.memo.insert(key, score);
            }
        }
        drop(st);
        if let Ok(mut k) = self.sink.lock() {
            k.on_score(call, &v, score, label);
        }
        score
    }
    fn generate_basis(&self) -> Vec<StandardBasis> {
        let mut b: Vec<StandardBasis> = self.vals.iter().zip(self.bounds.iter()).map(|(v, (lo, hi))| StandardBasis::new(v, *lo, *hi)).collect();
        for (i, frac) in self.aliases.iter() {
            if let (Some(v), Some((lo, hi))) = (self.vals.get(*i), self.bounds.get(*i)) {
                // same bounds, or a narrower window inside them (a "fine" handle)
                let w = (hi - lo) * frac;
                let mid = 0.5 * (lo + hi);
                b.push(StandardBasis::new(v, (mid - w / 2.).max(*lo), (mid + w / 2.).min(*hi)));
            }
        }
        b
    }
    fn total_shapes(&self) -> usize {
        1
    }
    fn as_positions(&self) -> Result<String, Error> {
        Ok(format!("{:?}", self.values()))
    }
}

impl Clone for Scripted {
    fn clone(&self) -> Self {
        // deep copy of the parameters (like the library's own states); script state shared
        Scripted {
            vals: self.vals.iter().map(|v| SharedValue::new(v.get_value())).collect(),
            bounds: self.bounds.clone(),
            script: self.script.clone(),
            st: self.st.clone(),
            sink: self.sink.clone(),
            aliases: self.aliases.clone(),
            offset: self.offset,
        }
    }
}
impl std::fmt::Debug for Scripted {
    fn fmt(&self, f: &mut std::fmt::Formatter) -> std::fmt::Result {
        write!(f, "Scripted{:?}", self.values())
    }
}
impl Serialize for Scripted {
    fn serialize<Z: Serializer>(&self, s: Z) -> Result<Z::Ok, Z::Error> {
        self.values().serialize(s)
    }
}
impl PartialEq for Scripted {
    fn eq(&self, o: &Self) -> bool {
        self.values() == o.values()
    }
}
impl Eq for Scripted {}
impl PartialOrd for Scripted {
    fn partial_cmp(&self, o: &Self) -> Option<Ordering> {
        self.values().partial_cmp(&o.values())
    }
}
impl Ord for Scripted {
    fn cmp(&self, o: &Self) -> Ordering {
        self.partial_cmp(o).unwrap_or(Ordering::Equal)
    }
}
impl ToSVG for Scripted {
    type Value = Document;
    fn as_svg(&self) -> Document {
        Document::new()
    }
}
