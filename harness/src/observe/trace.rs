//! Online trace monitor over the sequence of `State::score()` calls made by one
//! `optimise_state` run, as seen from the boundary (DESIGN.md 3.2).
//!
//! It keeps every hypothesis about what the optimiser's current state could be, each with the
//! accept/reject decisions it assumes.  A decision is *resolved* once every surviving
//! hypothesis agrees on it.  Only resolved decisions are ever used as evidence.

use serde_json::{json, Value};

#[derive(Clone, Debug, PartialEq)]
pub struct Decision {
    /// 1-based index of the proposal (call number; call 0 is the initial evaluation)
    pub step: usize,
    pub accepted: bool,
    pub old: f64,
    pub new: Option<f64>,
}

impl Decision {
    fn same(&self, o: &Decision) -> bool {
        self.step == o.step
            && self.accepted == o.accepted
            && self.old.to_bits() == o.old.to_bits()
            && self.new.map(f64::to_bits) == o.new.map(f64::to_bits)
    }
}

#[derive(Clone, Debug)]
struct Hyp {
    v: Vec<u64>,
    /// None: this hypothesis assumes an undefined score was accepted
    score: Option<f64>,
    pending: Vec<Decision>,
}

#[derive(Clone, Debug)]
pub struct TraceViolation {
    pub what: String,
    pub detail: Value,
}

pub const HYP_CAP: usize = 48;
pub const PENDING_CAP: usize = 24;

pub struct TraceMonitor {
    pub k: usize,
    hyps: Vec<Hyp>,
    pub calls: usize,
    pub resolved: Vec<Decision>,
    pub keep_resolved: bool,
    pub n_resolved: u64,
    pub n_unresolvable: u64,
    pub n_collapses: u64,
    pub violations: Vec<TraceViolation>,
    /// per-proposal: smallest over possible parents of the largest single-coordinate move,
    /// in units of that coordinate's half range (filled when `ranges` is set)
    pub ranges: Option<Vec<(f64, f64)>>,
    pub max_move_over_halfrange: f64,
    pub worst_move: Option<Value>,
    pub step_limit: Option<f64>,
    pub initial: Option<(Vec<u64>, Option<f64>)>,
    pub last: Option<(Vec<u64>, Option<f64>)>,
    pub two_coordinate_moves: u64,
    pub zero_moves: u64,
    /// callback-free hook: every resolved decision is also pushed here when enabled
    pub first_calls: Vec<(Vec<f64>, Option<f64>)>,
    /// k == 1: every earlier vector stays a possible current state (one parameter: nothing can
    /// be told apart by position), so only the set of vectors seen is kept
    seen1: std::collections::HashSet<u64>,
    /// overflow fallback (sound, weaker): once more hypotheses are alive than can be tracked,
    /// every vector seen so far stays a possible current state; membership by hashing
    pub fallback: bool,
    seen_full: std::collections::HashSet<u64>,
    seen_masked: Vec<std::collections::HashSet<u64>>,
    /// when set to the number of proposals per inner loop: the believed current scores at
    /// each loop boundary (scores of the possible parents of the first proposal after it)
    pub snapshot_every: Option<u64>,
    pub snapshots: Vec<(u64, Vec<u64>)>,
}

fn ham(a: &[u64], b: &[u64]) -> usize {
    a.iter().zip(b.iter()).filter(|(x, y)| x != y).count()
}

fn hvec(bits: &[u64], skip: usize) -> u64 {
    let mut h: u64 = 0xcbf2_9ce4_8422_2325 ^ (skip as u64).wrapping_mul(0x9E37_79B9_7F4A_7C15);
    for (i, b) in bits.iter().enumerate() {
        let x = if i == skip { 0x5555_5555_5555_5555 } else { *b };
        h = (h ^ x).wrapping_mul(0x100_0000_01b3);
        h ^= h >> 31;
    }
    h
}

impl TraceMonitor {
    fn remember(&mut self, bits: &[u64]) {
        if self.seen_masked.len() != bits.len() {
            self.seen_masked = vec![std::collections::HashSet::new(); bits.len()];
        }
        self.seen_full.insert(hvec(bits, usize::MAX));
        for c in 0..bits.len() {
            self.seen_masked[c].insert(hvec(bits, c));
        }
    }

    pub fn new(k: usize) -> Self {
        TraceMonitor {
            k,
            hyps: vec![],
            calls: 0,
            resolved: vec![],
            keep_resolved: true,
            n_resolved: 0,
            n_unresolvable: 0,
            n_collapses: 0,
            violations: vec![],
            ranges: None,
            max_move_over_halfrange: 0.,
            worst_move: None,
            step_limit: None,
            initial: None,
            last: None,
            two_coordinate_moves: 0,
            zero_moves: 0,
            first_calls: vec![],
            seen1: std::collections::HashSet::new(),
            fallback: false,
            seen_full: std::collections::HashSet::new(),
            seen_masked: vec![],
            snapshot_every: None,
            snapshots: vec![],
        }
    }

    pub fn candidates(&self) -> Vec<(Vec<f64>, Option<f64>)> {
        self.hyps.iter().map(|h| (h.v.iter().map(|b| f64::from_bits(*b)).collect(), h.score)).collect()
    }

    /// feed one observed score() call
    pub fn on_call(&mut self, v: &[f64], score: Option<f64>) -> Vec<Decision> {
        let bits: Vec<u64> = v.iter().map(|x| x.to_bits()).collect();
        if self.first_calls.len() < 12 {
            self.first_calls.push((v.to_vec(), score));
        }
        let idx = self.calls;
        self.calls += 1;
        self.last = Some((bits.clone(), score));
        if idx == 0 {
            self.initial = Some((bits.clone(), score));
            if self.k == 1 && bits.len() == 1 {
                self.seen1.insert(bits[0]);
            }
            self.hyps = vec![Hyp { v: bits, score, pending: vec![] }];
            return vec![];
        }
        if self.k == 1 && bits.len() == 1 {
            // set mode: no decision can be resolved; moves are measured against the nearest
            // possible parent
            if let Some(r) = &self.ranges {
                let half = (r[0].1 - r[0].0) / 2.;
                let x = f64::from_bits(bits[0]);
                // (a parameter whose range is empty cannot move at all)
                let rel = |d: f64| if half > 0. { d / half } else if d > 0. { f64::MAX } else { 0. };
                let mv = self.seen1.iter().map(|b| rel((x - f64::from_bits(*b)).abs())).fold(f64::INFINITY, f64::min);
                if mv.is_finite() && mv > self.max_move_over_halfrange {
                    self.max_move_over_halfrange = mv;
                    self.worst_move = Some(json!({"call": idx, "proposal": v, "move_over_half_range": mv, "note": "single parameter: nearest of all earlier values"}));
                }
            }
            self.seen1.insert(bits[0]);
            self.n_unresolvable += 1;
            return vec![];
        }
        if self.fallback {
            let has_parent = (0..bits.len()).any(|c| self.seen_masked.get(c).map(|m| m.contains(&hvec(&bits, c))).unwrap_or(false));
            if !has_parent {
                self.two_coordinate_moves += 1;
                self.violations.push(TraceViolation {
                    what: "proposal-not-derived-from-any-possible-current-state".into(),
                    detail: json!({"call": idx, "proposal": v, "note": "set mode: no earlier vector differs from it in at most one parameter"}),
                });
            }
            self.remember(&bits);
            self.n_unresolvable += 1;
            return vec![];
        }
        // possible parents
        let mut new: Vec<Hyp> = vec![];
        let mut best_move = f64::INFINITY;
        let mut any_parent = false;
        let mut min_ham = usize::MAX;
        for h in self.hyps.iter() {
            let d = ham(&h.v, &bits);
            min_ham = min_ham.min(d);
            if d <= 1 {
                any_parent = true;
                if let Some(r) = &self.ranges {
                    let mut mv: f64 = 0.;
                    for c in 0..bits.len().min(r.len()) {
                        if h.v[c] != bits[c] {
                            let half = (r[c].1 - r[c].0) / 2.;
                            let d = (f64::from_bits(bits[c]) - f64::from_bits(h.v[c])).abs();
                            mv = mv.max(if half > 0. { d / half } else if d > 0. { f64::MAX } else { 0. });
                        }
                    }
                    best_move = best_move.min(mv);
                }
                let old = h.score.unwrap_or(f64::NAN);
                let mut p_rej = h.pending.clone();
                p_rej.push(Decision { step: idx, accepted: false, old, new: score });
                new.push(Hyp { v: h.v.clone(), score: h.score, pending: p_rej });
                let mut p_acc = h.pending.clone();
                p_acc.push(Decision { step: idx, accepted: true, old, new: score });
                new.push(Hyp { v: bits.clone(), score, pending: p_acc });
            }
        }
        if let Some(inner) = self.snapshot_every {
            if inner > 0 && idx >= 1 && (idx as u64 - 1) % inner == 0 && idx > 1 {
                let mut sc: Vec<u64> = self.hyps.iter().filter(|h| ham(&h.v, &bits) <= 1).map(|h| h.score.map(f64::to_bits).unwrap_or(u64::MAX)).collect();
                sc.sort();
                sc.dedup();
                self.snapshots.push(((idx as u64 - 1) / inner, sc));
            }
        }
        if !any_parent {
            if min_ham >= 2 {
                self.two_coordinate_moves += 1;
            }
            self.violations.push(TraceViolation {
                what: "proposal-not-derived-from-any-possible-current-state".into(),
                detail: json!({
                    "call": idx,
                    "proposal": v,
                    "possible_current_states": self.candidates().iter().map(|c| json!(c.0)).collect::<Vec<_>>(),
                    "smallest_number_of_differing_parameters": min_ham,
                }),
            });
            // continue from what was observed
            self.hyps = vec![Hyp { v: bits, score, pending: vec![] }];
            return vec![];
        }
        if min_ham == 0 {
            self.zero_moves += 1;
        }
        if self.ranges.is_some() && best_move.is_finite() {
            if best_move > self.max_move_over_halfrange {
                self.max_move_over_halfrange = best_move;
                self.worst_move = Some(json!({"call": idx, "proposal": v, "move_over_half_range": best_move,
                    "possible_parents": self.candidates().iter().map(|c| json!(c.0)).collect::<Vec<_>>() }));
            }
        }
        // merge observationally equivalent hypotheses (same vector, same believed score)
        let mut merged: Vec<Hyp> = vec![];
        for h in new {
            if let Some(m) = merged.iter_mut().find(|m| m.v == h.v && m.score.map(f64::to_bits) == h.score.map(f64::to_bits)) {
                let before = m.pending.len();
                m.pending.retain(|d| h.pending.iter().any(|e| e.same(d)));
                self.n_unresolvable += (before - m.pending.len()) as u64;
            } else {
                merged.push(h);
            }
        }
        self.hyps = merged;
        // resolve: decisions on which every hypothesis agrees
        let mut out = vec![];
        if let Some(first) = self.hyps.first() {
            let common: Vec<Decision> = first
                .pending
                .iter()
                .filter(|d| self.hyps.iter().all(|h| h.pending.iter().any(|e| e.same(d))))
                .cloned()
                .collect();
            if !common.is_empty() {
                for h in self.hyps.iter_mut() {
                    h.pending.retain(|d| !common.iter().any(|c| c.same(d)));
                }
                out = common;
            }
        }
        // decisions that stay disputed for long are given up (never used as evidence)
        for h in self.hyps.iter_mut() {
            if h.pending.len() > PENDING_CAP {
                let cut = h.pending.len() - PENDING_CAP;
                h.pending.drain(0..cut);
                self.n_unresolvable += cut as u64;
            }
        }
        // a step on which the hypotheses disagree about *which* step-idx decisions exist
        // stays pending; bound the work
        if self.hyps.len() > HYP_CAP {
            self.n_collapses += 1;
            for h in self.hyps.iter_mut() {
                self.n_unresolvable += h.pending.len() as u64;
                h.pending.clear();
            }
            // keep distinct (vector, score) only
            let mut uniq: Vec<Hyp> = vec![];
            for h in self.hyps.drain(..) {
                if !uniq.iter().any(|m| m.v == h.v && m.score.map(f64::to_bits) == h.score.map(f64::to_bits)) {
                    uniq.push(h);
                }
            }
            // still too many distinct candidates (effectively one free parameter): nothing
            // may be dropped - switch to set mode for the rest of the run
            if uniq.len() > HYP_CAP {
                for h in uniq.iter() {
                    let b = h.v.clone();
                    self.remember(&b);
                }
                self.fallback = true;
            }
            self.hyps = uniq;
        }
        self.n_resolved += out.len() as u64;
        if self.keep_resolved {
            self.resolved.extend(out.iter().cloned());
        }
        out
    }

    /// the state handed back must be one of the possible current states, bit for bit
    pub fn check_returned(&mut self, v: &[f64]) -> bool {
        let bits: Vec<u64> = v.iter().map(|x| x.to_bits()).collect();
        let ok = if self.k == 1 && bits.len() == 1 {
            self.seen1.contains(&bits[0])
        } else if self.fallback {
            self.seen_full.contains(&hvec(&bits, usize::MAX)) || self.hyps.iter().any(|h| h.v == bits)
        } else {
            self.hyps.iter().any(|h| h.v == bits)
        };
        if !ok {
            self.violations.push(TraceViolation {
                what: "returned-state-is-not-a-possible-current-state".into(),
                detail: json!({
                    "returned": v,
                    "possible_current_states": self.candidates().iter().map(|c| json!(c.0)).collect::<Vec<_>>(),
                    "calls": self.calls,
                }),
            });
        }
        ok
    }

    pub fn unresolved_pending(&self) -> usize {
        self.hyps.iter().map(|h| h.pending.len()).max().unwrap_or(0)
    }
}
