//! Concurrent replica runner used by the sanitizer legs (ThreadSanitizer, Miri).
//!
//!   conc scripted <threads> <steps> <seed>   synthetic State: only SharedValue, StandardBasis and
//!                                            optimise_state are exercised (no nalgebra): Miri
//!                                            runs this with full validation
//!   conc real <threads> <steps> <seed>       real PackedState / PotentialState replicas
//!
//! Every replica is a clone of one original, optimised through three chained stages with
//! seed = replica index, while the main thread keeps re-reading the original.  The results must
//! equal the sequential reference bit for bit (exit 3 otherwise) and the original must not
//! change (exit 4).

use std::cmp::Ordering;
use std::sync::atomic::{AtomicBool, Ordering as AO};

use anyhow::Error;
use packing::traits::{Basis, State, ToSVG};
use packing::wallpaper::{get_wallpaper_group, WallpaperGroups};
use packing::{BuildOptimiser, LJShape2, LineShape, PackedState, PotentialState, SharedValue, StandardBasis};
use serde::{Serialize, Serializer};
use svg::Document;

struct Synth {
    vals: Vec<SharedValue>,
}

impl Synth {
    fn new(k: usize) -> Self {
        Synth { vals: (0..k).map(|i| SharedValue::new(0.3 + 0.05 * i as f64)).collect() }
    }
    fn values(&self) -> Vec<f64> {
        self.vals.iter().map(|v| v.get_value()).collect()
    }
}

impl State for Synth {
    fn score(&self) -> Option<f64> {
        // a bowl with an undefined region: rejections (undo) and acceptances both occur
        let v = self.values();
        if v[0] > 0.9 {
            return None;
        }
        Some(-v.iter().enumerate().map(|(i, x)| (x - 0.1 * i as f64) * (x - 0.1 * i as f64)).sum::<f64>())
    }
    fn generate_basis(&self) -> Vec<StandardBasis> {
        self.vals.iter().map(|v| StandardBasis::new(v, 0., 1.)).collect()
    }
    fn total_shapes(&self) -> usize {
        1
    }
    fn as_positions(&self) -> Result<String, Error> {
        Ok(String::new())
    }
}
impl Clone for Synth {
    fn clone(&self) -> Self {
        Synth { vals: self.vals.iter().map(|v| SharedValue::new(v.get_value())).collect() }
    }
}
impl std::fmt::Debug for Synth {
    fn fmt(&self, f: &mut std::fmt::Formatter) -> std::fmt::Result {
        write!(f, "{:?}", self.values())
    }
}
impl Serialize for Synth {
    fn serialize<Z: Serializer>(&self, s: Z) -> Result<Z::Ok, Z::Error> {
        self.values().serialize(s)
    }
}
impl PartialEq for Synth {
    fn eq(&self, o: &Self) -> bool {
        self.values() == o.values()
    }
}
impl Eq for Synth {}
impl PartialOrd for Synth {
    fn partial_cmp(&self, o: &Self) -> Option<Ordering> {
        self.score().partial_cmp(&o.score())
    }
}
impl Ord for Synth {
    fn cmp(&self, o: &Self) -> Ordering {
        self.partial_cmp(o).unwrap_or(Ordering::Equal)
    }
}
impl ToSVG for Synth {
    type Value = Document;
    fn as_svg(&self) -> Document {
        Document::new()
    }
}

fn params<T: State>(s: &T) -> Vec<u64> {
    s.generate_basis().iter().map(|b| b.get_value().to_bits()).collect()
}

fn pipeline<T: State>(s: T, index: u64, steps: u64) -> Vec<u64> {
    let mut a = BuildOptimiser::default();
    a.steps(steps).inner_steps((steps / 2).max(1)).kt_start(0.).kt_ratio(Some(0.)).max_step_size(0.2).seed(index);
    let mut b = BuildOptimiser::default();
    b.steps(steps).inner_steps((steps / 3).max(1)).kt_start(0.2).kt_ratio(Some(0.3)).max_step_size(0.1).seed(index);
    let mut c = BuildOptimiser::default();
    c.steps(steps).inner_steps(steps.max(1)).kt_start(0.).kt_ratio(Some(0.)).max_step_size(0.02).seed(index);
    let r = c.build().optimise_state(b.build().optimise_state(a.build().optimise_state(s)));
    params(&r)
}

fn run<T: State + 'static>(base: T, threads: u64, steps: u64) -> i32 {
    let before = params(&base);
    let reference: Vec<Vec<u64>> = (0..threads).map(|i| pipeline(base.clone(), i, steps)).collect();
    let stop = AtomicBool::new(false);
    let mut changed = false;
    let results: Vec<Vec<u64>> = std::thread::scope(|sc| {
        let hs: Vec<_> = (0..threads)
            .map(|i| {
                let b = &base;
                sc.spawn(move || pipeline(b.clone(), i, steps))
            })
            .collect();
        // the original is read concurrently with the optimisation of its clones
        let mut n = 0;
        while !stop.load(AO::SeqCst) && n < 50 {
            if params(&base) != before {
                changed = true;
            }
            n += 1;
            std::thread::yield_now();
            if hs.iter().all(|h| h.is_finished()) {
                stop.store(true, AO::SeqCst);
            }
        }
        hs.into_iter().map(|h| h.join().unwrap()).collect()
    });
    if changed || params(&base) != before {
        eprintln!("conc: ORIGINAL CHANGED");
        return 4;
    }
    for (i, r) in results.iter().enumerate() {
        if *r != reference[i] {
            eprintln!("conc: replica {} differs from its sequential reference", i);
            return 3;
        }
    }
    println!("conc: {} replicas x 3 stages x {} steps: identical to the sequential reference", threads, steps);
    0
}

fn main() {
    let a: Vec<String> = std::env::args().collect();
    let mode = a.get(1).map(|s| s.as_str()).unwrap_or("scripted");
    let threads: u64 = a.get(2).and_then(|s| s.parse().ok()).unwrap_or(3);
    let steps: u64 = a.get(3).and_then(|s| s.parse().ok()).unwrap_or(30);
    let seed: u64 = a.get(4).and_then(|s| s.parse().ok()).unwrap_or(0);
    let code = match mode {
        "scripted" => run(Synth::new(3 + (seed % 4) as usize), threads, steps),
        "real" => {
            let groups = [WallpaperGroups::p2, WallpaperGroups::p2mg, WallpaperGroups::p1g1, WallpaperGroups::p1];
            let wg = get_wallpaper_group(match seed % 4 {
                0 => WallpaperGroups::p2,
                1 => WallpaperGroups::p2mg,
                2 => WallpaperGroups::p1g1,
                _ => WallpaperGroups::p1,
            })
            .unwrap();
            let _ = groups;
            if seed % 2 == 0 {
                run(PackedState::from_group(LineShape::polygon(3 + (seed % 5) as usize).unwrap(), &wg).unwrap(), threads, steps)
            } else {
                run(PotentialState::from_group(LJShape2::from_trimer(0.637556, 120., 1.), &wg).unwrap(), threads, steps)
            }
        }
        // cheap real states for the interpreter: one triangle per copy / one LJ particle
        "real-small" => {
            let wg = get_wallpaper_group(if seed % 4 < 2 { WallpaperGroups::p2 } else { WallpaperGroups::p1m1 }).unwrap();
            if seed % 2 == 0 {
                run(PackedState::from_group(LineShape::polygon(3).unwrap(), &wg).unwrap(), threads, steps)
            } else {
                run(PotentialState::from_group(LJShape2::circle(), &wg).unwrap(), threads, steps)
            }
        }
        _ => 2,
    };
    std::process::exit(code);
}
