mod common;
mod libx;
mod observe;
mod oracle;
mod props;

use common::*;

fn main() {
    // a process-history child of C16 must run before anything has used the library
    if let Ok(h) = std::env::var("PV_C16_HISTORY") {
        props::c16::child_main(h.parse().unwrap_or(0));
    }
    // a logger that accepts everything and discards it: the library's log statements have their
    // arguments evaluated in every workload of every property, as with a user's -v
    props::c20::enable_discarding_logger();
    let args = parse_args();
    let ctx = Ctx::new(&args);
    if let Err(e) = libx::selfcheck_plumbing() {
        println!("INCONCLUSIVE property={} reason=harness plumbing self-check failed: {}", args.prop, e);
        std::process::exit(2);
    }
    if let Some(path) = &args.replay {
        let txt = match std::fs::read_to_string(path) {
            Ok(t) => t,
            Err(e) => {
                println!("INCONCLUSIVE property={} reason=cannot read replay {}: {}", args.prop, path.display(), e);
                std::process::exit(2);
            }
        };
        // exact number parsing: witnesses can be ulp-sensitive
        let v = match oracle::xjson::parse(&txt) {
            Ok(v) => v,
            Err(e) => {
                println!("INCONCLUSIVE property={} reason=bad replay file: {}", args.prop, e);
                std::process::exit(2);
            }
        };
        let kind = v["kind"].as_str().unwrap_or("").to_string();
        let case = v["case"].clone();
        if !props::replay(&ctx, &args.prop, &kind, &case) {
            println!("INCONCLUSIVE property={} reason=no replay routine", args.prop);
            std::process::exit(2);
        }
        std::process::exit(ctx.finish());
    }
    if !props::run(&ctx, &args.prop) {
        println!("INCONCLUSIVE property={} reason=unknown property", args.prop);
        std::process::exit(2);
    }
    std::process::exit(ctx.finish());
}
