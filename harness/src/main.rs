mod common;
mod libx;
mod observe;
mod oracle;
mod props;

use common::*;

fn main() {
    let args = parse_args();
    let ctx = Ctx::new(&args);
    if let Err(e) = libx::selfcheck_plumbing() {
        println!("INCONCLUSIVE property={} reason=harness plumbing self-check failed: {}", args.prop, e);
        std::process::exit(2);
    }
    if let Some(path) = &args.replay {
        let txt = match std::fs::read_to_string(path) {
            Ok(t) => t,
            Err(e) => {
                println!("INCONCLUSIVE property={} reason=cannot read replay {}: {}", args.prop, path.display(), e);
                std::process::exit(2);
            }
        };
        // exact number parsing: witnesses can be ulp-sensitive
        let v = match oracle::xjson::parse(&txt) {
            Ok(v) => v,
            Err(e) => {
                println!("INCONCLUSIVE property={} reason=bad replay file: {}", args.prop, e);
                std::process::exit(2);
            }
        };
        let kind = v["kind"].as_str().unwrap_or("").to_string();
        let case = v["case"].clone();
        match args.prop.as_str() {
            "C14" => props::c14::replay(&ctx, &case),
            "C15" => props::c15::replay(&ctx, &case),
            "C16" => props::c16::replay(&ctx, &case),
            "C17" => props::c17::replay(&ctx, &kind, &case),
            p => {
                println!("INCONCLUSIVE property={} reason=no replay routine", p);
                std::process::exit(2);
            }
        }
        std::process::exit(ctx.finish());
    }
    match args.prop.as_str() {
        "C14" => props::c14::run(&ctx),
        "C15" => props::c15::run(&ctx),
        "C16" => props::c16::run(&ctx),
        "C17" => props::c17::run(&ctx),
        p => {
            println!("INCONCLUSIVE property={} reason=unknown property", p);
            std::process::exit(2);
        }
    }
    std::process::exit(ctx.finish());
}
