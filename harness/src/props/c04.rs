//! C04 - every crystal produced has the symmetry of the requested wallpaper group.
use std::f64::consts::PI;

use nalgebra::Point2;
use packing::traits::State;
use packing::{BuildOptimiser, LJShape2, LineShape, PackedState, PotentialState, LJ2};
use rand::Rng;
use serde::{Deserialize, Serialize};
use serde_json::{json, Value};

use crate::common::*;
use crate::libx::{self, build_packed, build_potential, lattice_of, to_affine, HardGeom, Params, ShapeSpec};
use crate::oracle::geom::{self, Affine, P};
use crate::oracle::groups;
use crate::oracle::lattice::Lattice;
use super::history::{self, History};

#[derive(Clone, Debug, Serialize, Deserialize, PartialEq)]
pub enum Kind {
    Hard,
    LJ,
}

#[derive(Clone, Debug, Serialize, Deserialize)]
pub struct Case {
    pub group: String,
    pub kind: Kind,
    /// chiral test shape (irregular radial polygon / three unlike LJ particles) or a CLI shape
    pub shape: ShapeSpec,
    pub chiral: bool,
    pub params: Params,
    /// optimisation stages applied before the check: (steps, kt_start, max_step, seed, via_clone)
    pub stages: Vec<(u64, f64, f64, u64, bool)>,
}

pub struct SymView {
    pub placements: Vec<Affine>,
    pub lattice: Lattice,
    /// characteristic points of the shape in its own frame (with a radius/size tag)
    pub points: Vec<(P, f64)>,
}

/// The symmetry check proper.  Returns Some((what, detail)) on a violation.
pub fn check_symmetry(group: &str, v: &SymView) -> Option<(String, Value)> {
    let g = groups::group(group)?;
    let lat = &v.lattice;
    let (a, b) = (lat.va(), lat.vb());
    let m = Affine { m: [[a[0], b[0]], [a[1], b[1]]], t: [0., 0.] };
    let det = m.det();
    if !(det.abs() > 0.) {
        return Some(("degenerate-cell".into(), json!({"a": lat.a, "b": lat.b, "angle": lat.theta})));
    }
    let minv = Affine { m: [[b[1] / det, -b[0] / det], [-a[1] / det, a[0] / det]], t: [0., 0.] };
    let scale = 1. + lat.a.abs() + lat.b.abs();
    if v.placements.len() != g.ops.len() {
        return Some(("copy-count".into(), json!({"placements": v.placements.len(), "order": g.ops.len()})));
    }
    for op in g.ops.iter() {
        let w = Affine { m: [[op.w[0][0] as f64, op.w[0][1] as f64], [op.w[1][0] as f64, op.w[1][1] as f64]], t: [op.t2[0] as f64 / 2., op.t2[1] as f64 / 2.] };
        // Cartesian form of the operation: Q = M W M^-1, q = M w
        let q_lin = m.mul(&Affine { m: w.m, t: [0., 0.] }).mul(&minv);
        let q = Affine { m: q_lin.m, t: m.lin(w.t) };
        if q.orthogonality_defect() > 1e-9 {
            return Some((
                "operation-is-not-a-rigid-motion-of-this-cell".into(),
                json!({"op": format!("{:?}", op), "Q": q.m, "cell": {"a": lat.a, "b": lat.b, "angle": lat.theta}, "defect": q.orthogonality_defect()}),
            ));
        }
        for (k, pk) in v.placements.iter().enumerate() {
            let img = q.mul(pk);
            // which copy (plus lattice vector) is it?
            let mut ok = false;
            let mut best: f64 = f64::INFINITY;
            for pj in v.placements.iter() {
                let d = lat.frac(geom::sub(img.t, pj.t));
                let n = [d[0].round(), d[1].round()];
                let res = (d[0] - n[0]).abs().max((d[1] - n[1]).abs());
                if res > 1e-9 {
                    best = best.min(res);
                    continue;
                }
                let shift = lat.cart(n[0], n[1]);
                // compare the placed shapes as point sets
                let tol = 1e-9 * scale;
                let mut all = true;
                let mut worst: f64 = 0.;
                for (p, r) in v.points.iter() {
                    let x = img.apply(*p);
                    let hit = v.points.iter().filter(|(_, r2)| r2 == r).map(|(p2, _)| geom::dist(x, geom::add(pj.apply(*p2), shift))).fold(f64::INFINITY, f64::min);
                    worst = worst.max(hit);
                    if !(hit <= tol) {
                        all = false;
                    }
                }
                best = best.min(worst);
                if all {
                    ok = true;
                    break;
                }
            }
            if !ok {
                return Some((
                    "image-of-a-copy-is-not-a-copy".into(),
                    json!({"op": format!("{:?}", op), "copy": k, "placement": {"m": pk.m, "t": pk.t}, "image": {"m": img.m, "t": img.t},
                           "closest_mismatch": best, "all_placements": v.placements.iter().map(|p| json!({"m": p.m, "t": p.t})).collect::<Vec<_>>(),
                           "cell": {"a": lat.a, "b": lat.b, "angle": lat.theta}}),
                ));
            }
        }
    }
    None
}

pub fn view_hard<S: HardGeom>(st: &PackedState<S>) -> SymView {
    SymView { placements: st.cartesian_positions().map(|t| to_affine(&t)).collect(), lattice: lattice_of(&st.cell), points: st.shape.oshape().points() }
}

pub fn view_lj(st: &PotentialState<LJShape2>) -> SymView {
    SymView {
        placements: st.cartesian_positions().map(|t| to_affine(&t)).collect(),
        lattice: lattice_of(&st.cell),
        points: st.shape.items.iter().map(|a| ([a.position.x, a.position.y], a.sigma)).collect(),
    }
}

pub fn chiral_line() -> LineShape {
    LineShape::from_radial("Chiral", vec![1.0, 0.62, 0.85, 0.45, 0.93, 0.7, 0.55]).unwrap()
}

pub fn chiral_lj() -> LJShape2 {
    LJShape2 {
        name: "Chiral".into(),
        items: vec![
            LJ2 { position: Point2::new(0.1, -0.5), sigma: 2.0, epsilon: 1., cutoff: Some(3.5) },
            LJ2 { position: Point2::new(-0.9, 0.3), sigma: 1.2, epsilon: 1., cutoff: Some(3.5) },
            LJ2 { position: Point2::new(0.6, 0.8), sigma: 0.8, epsilon: 1., cutoff: Some(3.5) },
        ],
    }
}

fn optimise_and_view_hard<S: HardGeom>(st: PackedState<S>, c: &Case) -> Result<SymView, String> {
    // chains of stages; results are read back through JSON like a user of the output would
    let mut cur = st;
    for (steps, kt, step, seed, via_clone) in c.stages.iter() {
        if cur.score().is_none() {
            return Err("initial state invalid".into());
        }
        let mut b = BuildOptimiser::default();
        b.steps(*steps).inner_steps((*steps / 3).max(1)).kt_start(*kt).kt_ratio(Some(0.1)).max_step_size(*step).seed(*seed);
        let input = if *via_clone { cur.clone() } else { cur };
        let out = std::panic::catch_unwind(std::panic::AssertUnwindSafe(|| serde_json::to_value(&b.build().optimise_state(input)))).map_err(|_| "optimiser panicked".to_string())?;
        cur = serde_json::from_value(out.map_err(|e| e.to_string())?).map_err(|e| e.to_string())?;
    }
    Ok(view_hard(&cur))
}

fn optimise_and_view_lj(st: PotentialState<LJShape2>, c: &Case) -> Result<SymView, String> {
    let mut cur = st;
    for (steps, kt, step, seed, via_clone) in c.stages.iter() {
        let mut b = BuildOptimiser::default();
        b.steps(*steps).inner_steps((*steps / 3).max(1)).kt_start(*kt).kt_ratio(Some(0.1)).max_step_size(*step).seed(*seed);
        let input = if *via_clone { cur.clone() } else { cur };
        let out = std::panic::catch_unwind(std::panic::AssertUnwindSafe(|| serde_json::to_value(&b.build().optimise_state(input)))).map_err(|_| "optimiser panicked".to_string())?;
        cur = serde_json::from_value(out.map_err(|e| e.to_string())?).map_err(|e| e.to_string())?;
    }
    Ok(view_lj(&cur))
}

pub fn check(c: &Case, st: &mut Stats) {
    st.eval();
    let view: Result<SymView, String> = match c.kind {
        Kind::Hard => {
            if c.chiral {
                build_packed(chiral_line(), &c.group, &c.params).and_then(|s| optimise_and_view_hard(s, c))
            } else if let Some(s) = c.shape.line() {
                build_packed(s, &c.group, &c.params).and_then(|s| optimise_and_view_hard(s, c))
            } else if let Some(s) = c.shape.mol() {
                build_packed(s, &c.group, &c.params).and_then(|s| optimise_and_view_hard(s, c))
            } else {
                Err("no shape".into())
            }
        }
        Kind::LJ => {
            let shape = if c.chiral { Some(chiral_lj()) } else { c.shape.lj() };
            match shape {
                Some(s) => build_potential(s, &c.group, &c.params).and_then(|s| optimise_and_view_lj(s, c)),
                None => Err("no shape".into()),
            }
        }
    };
    let view = match view {
        Ok(v) => v,
        Err(e) => {
            st.count(&format!("skipped[{}]", e));
            return;
        }
    };
    let order = groups::group(&c.group).map(|g| g.ops.len()).unwrap_or(1);
    if order >= 2 && (c.chiral || !matches!(c.shape, ShapeSpec::Circle)) {
        st.nontrivial(hash64(&[hash_str(&c.group), c.chiral as u64, c.kind.clone() as u64, hash64(&c.params.quant()), c.stages.len() as u64, c.stages.first().map(|s| s.3).unwrap_or(0)]));
    }
    if !c.stages.is_empty() {
        st.count("states_checked_after_optimisation");
        if (view.lattice.theta - PI / 2.).abs() > 1e-12 || (view.lattice.b / view.lattice.a - c.params.ratio).abs() > 1e-9 {
            st.count("optimised_states_whose_cell_shape_drifted");
        }
    }
    match check_symmetry(&c.group, &view) {
        Some((what, detail)) => st.violation(Violation {
            kind: "c04.state".into(),
            signature: format!("symmetry:{}:{}", c.group, what),
            case: serde_json::to_value(c).unwrap(),
            detail,
        }),
        None => st.sample(|| json!({"case": c, "cell": {"a": view.lattice.a, "b": view.lattice.b, "angle": view.lattice.theta}, "placements": view.placements.len()})),
    }
}

/// States read from JSON: any lattice of the group's family is a valid cell (second side longer
/// than the first, obtuse angles for the oblique groups), and a site may sit exactly on a cell
/// face or whole lattice vectors outside the cell.
#[derive(Clone, Debug, Serialize, Deserialize)]
pub struct JsonCase {
    pub group: String,
    pub lj: bool,
    pub chiral: bool,
    pub shape: ShapeSpec,
    pub length: f64,
    pub ratio: f64,
    pub angle: f64,
    pub x: f64,
    pub y: f64,
    pub phi: f64,
}

pub fn gen_json_case<R: Rng>(rng: &mut R) -> JsonCase {
    let group = groups::NAMES[rng.gen_range(0, 7)].to_string();
    let lj = rng.gen_bool(0.4);
    let coord = |rng: &mut R| match rng.gen_range(0, 4) {
        0 => [-0.5, 0.5, 1.5, -1.5, 0., 1., 0.25, 2.5][rng.gen_range(0, 8)],
        1 => rng.gen_range(-3., 3.),
        _ => rng.gen_range(-0.5, 0.5),
    };
    JsonCase {
        chiral: rng.gen_bool(0.6),
        shape: if lj { libx::gen::trimer(rng) } else { libx::gen::hard_shape(rng) },
        lj,
        length: 10f64.powf(rng.gen_range(-0.5, 1.5)),
        ratio: if rng.gen_bool(0.5) { rng.gen_range(0.1, 1.) } else { rng.gen_range(1., 8.) },
        angle: if libx::is_oblique(&group) { rng.gen_range(0.1, PI - 0.1) } else { PI / 2. },
        x: coord(rng),
        y: coord(rng),
        phi: if rng.gen_bool(0.2) { [0., PI, -PI / 2., 3. * PI][rng.gen_range(0, 4)] } else { rng.gen_range(-7., 7.) },
        group,
    }
}

pub fn check_json(c: &JsonCase, st: &mut Stats) {
    st.eval();
    let p0 = Params { len: 5., ratio: 1., angle: PI / 2., x: 0.1, y: 0.2, phi: 0.3 };
    fn edit(v: &mut Value, c: &JsonCase) {
        v["cell"]["length"] = json!(c.length);
        v["cell"]["ratio"] = json!(c.ratio);
        v["cell"]["angle"] = json!(c.angle);
        v["occupied_sites"][0]["x"] = json!(c.x);
        v["occupied_sites"][0]["y"] = json!(c.y);
        v["occupied_sites"][0]["angle"] = json!(c.phi);
    }
    macro_rules! via_json {
        ($state:expr, $ty:ty, $view:expr) => {{
            let s0 = match $state {
                Ok(s) => s,
                Err(_) => return,
            };
            let mut v = match serde_json::to_value(&s0) {
                Ok(v) => v,
                Err(_) => return,
            };
            edit(&mut v, c);
            match serde_json::from_value::<$ty>(v) {
                Ok(s) => $view(&s),
                Err(_) => {
                    st.count("json_states_not_readable(skipped)");
                    return;
                }
            }
        }};
    }
    let view: SymView = if c.lj {
        let shape = if c.chiral { chiral_lj() } else { match c.shape.lj() { Some(s) => s, None => return } };
        via_json!(build_potential(shape, &c.group, &p0), PotentialState<LJShape2>, view_lj)
    } else if c.chiral {
        via_json!(build_packed(chiral_line(), &c.group, &p0), PackedState<LineShape>, view_hard)
    } else if let Some(s) = c.shape.line() {
        via_json!(build_packed(s, &c.group, &p0), PackedState<LineShape>, view_hard)
    } else if let Some(s) = c.shape.mol() {
        via_json!(build_packed(s, &c.group, &p0), PackedState<packing::MolecularShape2>, view_hard)
    } else {
        return;
    };
    let order = groups::group(&c.group).map(|g| g.ops.len()).unwrap_or(1);
    if order >= 2 {
        st.nontrivial(hash64(&[88, hash_str(&c.group), q(c.length, 1e-6), q(c.ratio, 1e-6), q(c.angle, 1e-6), c.x.to_bits(), c.y.to_bits()]));
    }
    st.count(if c.angle > PI / 2. + 1e-9 { "json_states[obtuse cell]" } else if c.ratio > 1. { "json_states[second side longer]" } else { "json_states[other]" });
    if let Some((what, detail)) = check_symmetry(&c.group, &view) {
        st.violation(Violation { kind: "c04.json".into(), signature: format!("symmetry:{}:{}", c.group, what), case: serde_json::to_value(c).unwrap(), detail });
    }
}

/// The same seven groups with their operations listed in another order (a list generated from
/// generators, a rotated or reversed table): a group is a set of operations, the arrangement
/// must have its symmetry whatever the order, and whether the state is built from the group or
/// read from JSON.
pub fn check_permuted(seed: u64, st: &mut Stats) {
    st.eval();
    let mut rng = crate::common::rng_for(seed, 404);
    let name = groups::NAMES[rng.gen_range(1, 7)];
    let wg = match libx::lib_group(name) {
        Ok(g) => g,
        Err(_) => return,
    };
    let mut ops: Vec<&str> = wg.wyckoff_str.clone();
    let k = rng.gen_range(1, ops.len().max(2));
    let nops = ops.len().max(1);
    ops.rotate_left(k % nops);
    if rng.gen_bool(0.3) {
        ops.reverse();
    }
    let g = packing::WallpaperGroup { name: ["listed otherwise", name][rng.gen_range(0, 2)], family: wg.family, wyckoff_str: ops.clone() };
    let lj = rng.gen_bool(0.4);
    let view: SymView = {
        macro_rules! place {
            ($state:expr, $ty:ty, $view:expr) => {{
                let s0 = match $state {
                    Ok(s) => s,
                    Err(_) => return,
                };
                let mut v = match serde_json::to_value(&s0) {
                    Ok(v) => v,
                    Err(_) => return,
                };
                v["cell"]["length"] = json!(rng.gen_range(1., 12.));
                v["cell"]["ratio"] = json!(rng.gen_range(0.2, 1.5));
                if libx::is_oblique(name) {
                    v["cell"]["angle"] = json!(rng.gen_range(0.4, 2.6));
                }
                v["occupied_sites"][0]["x"] = json!(rng.gen_range(-0.5, 0.5));
                v["occupied_sites"][0]["y"] = json!(rng.gen_range(-0.5, 0.5));
                v["occupied_sites"][0]["angle"] = json!(rng.gen_range(0., 6.28));
                match serde_json::from_value::<$ty>(v) {
                    Ok(s) => $view(&s),
                    Err(_) => return,
                }
            }};
        }
        if lj {
            place!(PotentialState::from_group(chiral_lj(), &g), PotentialState<LJShape2>, view_lj)
        } else {
            place!(PackedState::from_group(chiral_line(), &g), PackedState<LineShape>, view_hard)
        }
    };
    st.nontrivial(hash64(&[404, seed]));
    st.count("states_of_groups_listed_in_another_order");
    if let Some((what, detail)) = check_symmetry(name, &view) {
        st.violation(Violation { kind: "c04.permuted".into(), signature: format!("symmetry:{}:{}", name, what), case: json!({ "permuted_seed": seed }), detail: json!({"operations_as_listed": ops, "what": detail}) });
    }
}

/// one state object (hard or LJ) edited again and again, its arrangement checked after every
/// edit: the placements it reports must have the group's symmetry in the cell it holds now
pub fn check_history(h: &History, st: &mut Stats) {
    let before = st.violations.len();
    let order = groups::group(&h.group).map(|g| g.ops.len()).unwrap_or(1);
    let group = h.group.clone();
    macro_rules! judge {
        ($view:expr) => {
            |s, step, _six, p: &Params, st: &mut Stats| {
                st.eval();
                let view: SymView = $view(s);
                if order >= 2 {
                    st.nontrivial(hash64(&[77, hash_str(&group), hash64(&p.quant()), step as u64]));
                }
                if let Some((what, detail)) = check_symmetry(&group, &view) {
                    st.violation(Violation { kind: "c04.history".into(), signature: format!("symmetry:{}:{}", group, what), case: json!({"params": p.to_json(), "step": step}), detail });
                }
            }
        };
    }
    if h.lj {
        let shapes: Vec<LJShape2> = h.shapes.iter().map(|s| if matches!(s, ShapeSpec::Polygon { .. }) { Some(chiral_lj()) } else { s.lj() }).flatten().collect();
        if shapes.len() == h.shapes.len() {
            if let Ok(state) = build_potential(shapes[0].clone(), &h.group, &h.start) {
                history::drive(h, state, &shapes, st, judge!(view_lj));
            }
        }
    } else if h.shapes.iter().all(|s| s.is_line()) {
        // (a 7-sided polygon entry stands for the chiral test shape)
        let shapes: Vec<LineShape> = h.shapes.iter().map(|s| if matches!(s, ShapeSpec::Polygon { sides: 7 }) { Some(chiral_line()) } else { s.line() }).flatten().collect();
        if shapes.len() == h.shapes.len() {
            if let Ok(state) = build_packed(shapes[0].clone(), &h.group, &h.start) {
                history::drive(h, state, &shapes, st, judge!(view_hard));
            }
        }
    } else {
        let shapes: Vec<packing::MolecularShape2> = h.shapes.iter().filter_map(|s| s.mol()).collect();
        if shapes.len() == h.shapes.len() {
            if let Ok(state) = build_packed(shapes[0].clone(), &h.group, &h.start) {
                history::drive(h, state, &shapes, st, judge!(view_hard));
            }
        }
    }
    history::rewrap(st, before, "c04.history", h);
}

pub fn gen_history<R: Rng>(rng: &mut R) -> History {
    let group = groups::NAMES[rng.gen_range(0, 7)];
    let lj = rng.gen_bool(0.4);
    let n = rng.gen_range(1, 4);
    let kind = rng.gen_range(0, 2);
    let shapes: Vec<ShapeSpec> = (0..n)
        .map(|_| {
            if lj {
                // Polygon stands for the three unlike particles
                if rng.gen_bool(0.5) {
                    ShapeSpec::Polygon { sides: 7 }
                } else {
                    libx::gen::trimer(rng)
                }
            } else if kind == 0 {
                if rng.gen_bool(0.6) {
                    ShapeSpec::Polygon { sides: 7 }
                } else {
                    ShapeSpec::Polygon { sides: rng.gen_range(3, 9) }
                }
            } else {
                libx::gen::trimer(rng)
            }
        })
        .collect();
    history::gen_history(rng, group, shapes, lj, 1.)
}

pub fn gen_case<R: Rng>(rng: &mut R, optimised: bool) -> Case {
    let group = groups::NAMES[rng.gen_range(0, 7)].to_string();
    let kind = if rng.gen_bool(0.5) { Kind::Hard } else { Kind::LJ };
    let chiral = rng.gen_bool(0.6);
    let shape = match kind {
        Kind::Hard => libx::gen::hard_shape(rng),
        Kind::LJ => {
            if rng.gen_bool(0.2) {
                ShapeSpec::Circle
            } else {
                libx::gen::trimer(rng)
            }
        }
    };
    let coord = |rng: &mut R| match rng.gen_range(0, 6) {
        0 => [-0.5, 0.5, 0., 0.25, -0.25][rng.gen_range(0, 5)],
        _ => rng.gen_range(-0.5, 0.5),
    };
    let copies = groups::group(&group).unwrap().ops.len() as f64;
    let mut params = Params {
        len: if optimised { 5. * copies * rng.gen_range(1., 2.) } else { 10f64.powf(rng.gen_range(-1., 1.5)) },
        ratio: if rng.gen_bool(0.2) { 1. } else { rng.gen_range(0.1, 1.) },
        angle: if rng.gen_bool(0.2) { PI / 2. } else { rng.gen_range(PI / 6., PI / 2.) },
        x: coord(rng),
        y: coord(rng),
        phi: if rng.gen_bool(0.15) { [0., PI / 2., PI, 2. * PI][rng.gen_range(0, 4)] } else { rng.gen_range(0., 2. * PI) },
    };
    let mut stages = vec![];
    if optimised {
        // keep the start dilute and generic so that the hard states are valid
        params.ratio = rng.gen_range(0.7, 1.);
        params.angle = rng.gen_range(1.2, PI / 2.);
        for _ in 0..rng.gen_range(1, 4) {
            stages.push((rng.gen_range(30, 400), [0., 0.1, 5.][rng.gen_range(0, 3)], [0.01, 0.1, 0.6][rng.gen_range(0, 3)], rng.gen::<u32>() as u64, rng.gen_bool(0.6)));
        }
    }
    Case { group, kind, shape, chiral, params, stages }
}

pub fn run(ctx: &Ctx) {
    ctx.set_rule("hard and Lennard-Jones states of all 7 groups with chiral test shapes (irregular 7-gon; three unlike LJ particles - sensitive to handedness) and the CLI's shapes; sites uniform and on special positions/bounds, orientations incl. multiples of pi/2, cells of the group's family (length 0.1-30, ratio 0.1-1, oblique angle pi/6-pi/2); plus states after chains of 1-3 optimisation stages (kT 0/0.1/5, step 0.01-0.6, directly and via clone(), read back through JSON) where ratio and angle drift; plus states read from JSON with any lattice of the family (ratio 0.1-8, oblique angles 0.1..pi-0.1) and sites on cell faces, on half-integers and whole lattice vectors outside the cell; plus the groups' own operations listed in another order (rotated, reversed) as user-defined groups; plus state objects that live through histories of 3-13 edits (several parameters at once - set, rescaled by powers of two, negated, nudged by an ulp, exchanged, reset -, the shape replaced, the cell replaced, clone(), JSON round trip), checked after every edit. Oracle: for every ITA operation, Q = M W M^-1 must be orthogonal (1e-9) and the image of every placed copy must coincide, as a set of points with radii, with some placed copy plus a lattice vector (1e-9 x scale). Non-trivial = group order >= 2 and a shape without full rotational symmetry; distinct by quantised parameters + stage seed");
    ctx.assume("the ITA table of oracle/groups.rs; placements are read from cartesian_positions() and the cell from its three numbers");
    let n = ctx.tier.pick(5_000u64, 400_000u64);
    let nopt = ctx.tier.pick(40u64, 1_500u64);
    let prev = std::panic::take_hook();
    std::panic::set_hook(Box::new(|_| {}));
    par_shards(ctx, 4, 64, |_, rng, st| {
        for _ in 0..n {
            check(&gen_case(rng, false), st);
        }
        for _ in 0..nopt {
            check(&gen_case(rng, true), st);
        }
        for _ in 0..n / 10 {
            check_history(&gen_history(rng), st);
        }
        for _ in 0..n / 4 {
            check_json(&gen_json_case(rng), st);
        }
        for _ in 0..n / 10 {
            check_permuted(rng.gen(), st);
        }
    });
    std::panic::set_hook(prev);
    ctx.set_min_nontrivial(5_000);
}

pub fn replay(ctx: &Ctx, case: &Value) {
    let mut st = Stats::new();
    if let Some(seed) = case["permuted_seed"].as_u64() {
        check_permuted(seed, &mut st);
    } else if let Ok(j) = serde_json::from_value::<JsonCase>(case.clone()) {
        check_json(&j, &mut st);
    } else if let Ok(h) = serde_json::from_value::<History>(case.clone()) {
        check_history(&h, &mut st);
    } else if let Ok(c) = serde_json::from_value::<Case>(case.clone()) {
        check(&c, &mut st);
    }
    ctx.merge(st);
}
