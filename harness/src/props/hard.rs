//! Shared oracle for hard states (C01, C02, C04, C08): exhaustive overlap search over all
//! symmetry copies and all lattice images that can possibly be in range.
use packing::traits::State;
use packing::PackedState;
use serde_json::{json, Value};

use crate::libx::{lattice_of, to_affine, HardGeom};
use crate::oracle::geom::{self, Affine, OShape};
use crate::oracle::lattice::Lattice;

#[derive(Clone, Debug)]
pub struct Contact {
    /// largest penetration depth over all pairs (negative: smallest gap lower bound)
    pub depth: f64,
    pub i: usize,
    pub j: usize,
    pub n: i64,
    pub m: i64,
    pub pairs_examined: u64,
}

impl Contact {
    pub fn to_json(&self) -> Value {
        json!({"depth": self.depth, "copy_i": self.i, "copy_j": self.j, "image": [self.n, self.m], "pairs_examined": self.pairs_examined})
    }
    pub fn lattice_index(&self) -> i64 {
        self.n.abs().max(self.m.abs())
    }
}

/// Deepest contact among copies `pl` (Cartesian placements of one cell) and all their
/// lattice translates.  Complete: every image whose centre can be within 2R is examined.
pub fn deepest_contact(shape: &OShape, pl: &[Affine], lat: &Lattice) -> Contact {
    let r = shape.enclosing_radius();
    let reach = 2. * r + 1e-6;
    let placed: Vec<OShape> = pl.iter().map(|t| shape.placed(t)).collect();
    let (va, vb) = (lat.va(), lat.vb());
    let mut best = Contact { depth: f64::NEG_INFINITY, i: 0, j: 0, n: 0, m: 0, pairs_examined: 0 };
    for i in 0..pl.len() {
        for j in i..pl.len() {
            let dc = geom::sub(pl[j].t, pl[i].t);
            let f = lat.frac(dc);
            for (n, m) in lat.images_within(f, reach) {
                if i == j && n == 0 && m == 0 {
                    continue;
                }
                let shift = [n as f64 * va[0] + m as f64 * vb[0], n as f64 * va[1] + m as f64 * vb[1]];
                let c = geom::add(dc, shift);
                if geom::norm(c) > reach {
                    continue;
                }
                best.pairs_examined += 1;
                let other = match &placed[j] {
                    OShape::Poly(v) => OShape::Poly(v.iter().map(|p| geom::add(*p, shift)).collect()),
                    OShape::Discs(d) => OShape::Discs(d.iter().map(|(c, r)| (geom::add(*c, shift), *r)).collect()),
                };
                let d = geom::depth(&placed[i], &other);
                if d > best.depth {
                    best = Contact { depth: d, i, j, n, m, pairs_examined: best.pairs_examined };
                }
            }
        }
    }
    best
}

pub struct HardView {
    pub shape: OShape,
    pub placements: Vec<Affine>,
    pub lattice: Lattice,
    pub copies: usize,
}

pub fn view<S: HardGeom>(st: &PackedState<S>) -> HardView {
    let placements: Vec<Affine> = st.cartesian_positions().map(|t| to_affine(&t)).collect();
    HardView { shape: st.shape.oshape(), copies: placements.len(), placements, lattice: lattice_of(&st.cell) }
}

pub fn contact_of<S: HardGeom>(st: &PackedState<S>) -> Contact {
    let v = view(st);
    deepest_contact(&v.shape, &v.placements, &v.lattice)
}

/// Independent re-confirmation of an overlap witness: brute-force point sampling.
pub fn reconfirm_overlap(v: &HardView, c: &Contact) -> bool {
    let (va, vb) = (v.lattice.va(), v.lattice.vb());
    let shift = [c.n as f64 * va[0] + c.m as f64 * vb[0], c.n as f64 * va[1] + c.m as f64 * vb[1]];
    let a = v.shape.placed(&v.placements[c.i]);
    let b = v.shape.placed(&v.placements[c.j].translated(shift));
    geom::common_interior_point(&a, &b, (c.depth * 1e-2).min(1e-6)).is_some()
}

pub fn state_json<T: State>(st: &T) -> Value {
    serde_json::to_value(st).unwrap_or(Value::Null)
}
