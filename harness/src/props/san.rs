//! Sanitizer legs (ThreadSanitizer, Miri, memcheck) are driven by tools/san_legs.sh; their
//! summary is merged into the evidence here.  A report is a violation; a leg that could not
//! run is recorded, never turned into a verdict.
use serde_json::{json, Value};

use crate::common::*;

pub fn merge_summary(ctx: &Ctx, path: &str) {
    let txt = match std::fs::read_to_string(path) {
        Ok(t) => t,
        Err(_) => {
            ctx.extra("sanitizer_legs", json!("summary file missing: legs did not run"));
            return;
        }
    };
    let v: Value = match serde_json::from_str(&txt) {
        Ok(v) => v,
        Err(e) => {
            ctx.extra("sanitizer_legs", json!(format!("summary unreadable: {}", e)));
            return;
        }
    };
    let mut st = Stats::new();
    if let Some(legs) = v["legs"].as_array() {
        for leg in legs {
            let name = leg["name"].as_str().unwrap_or("?");
            let status = leg["status"].as_str().unwrap_or("?");
            st.eval();
            st.count(&format!("sanitizer_leg[{}][{}]", name, status));
            if status == "ok" {
                st.nontrivial(hash_str(name));
                st.add(&format!("sanitizer_leg[{}]:executions", name), leg["executions"].as_u64().unwrap_or(0));
            }
            let reports = leg["reports"].as_u64().unwrap_or(0);
            if reports > 0 {
                let frames = leg["distinct_reports"].as_array().cloned().unwrap_or_default();
                let first = frames.first().and_then(|f| f.as_str()).unwrap_or("unknown-frame").to_string();
                st.violation(Violation {
                    kind: "sanitizer".into(),
                    signature: format!("sanitizer:{}:{}", name, first),
                    case: json!({"leg": name, "how_to_rerun": leg["command"]}),
                    detail: json!({"reports": reports, "distinct_reports": frames, "log": leg["log"]}),
                });
            }
        }
    }
    ctx.extra("sanitizer_legs", v);
    ctx.merge(st);
}
