//! C09 - same seed, same answer: results do not depend on threads or other replicas.
use std::collections::BTreeSet;
use std::sync::atomic::{AtomicBool, AtomicU64, Ordering};
use std::sync::{Arc, Mutex};

use packing::traits::State;
use packing::{BuildOptimiser, PackedState, PotentialState};
use rand::Rng;
use rayon::prelude::*;
use serde::{Deserialize, Serialize};
use serde_json::{json, Value};

use super::c10::parse_hook_log;
use crate::common::*;
use crate::libx::{self, lib_group, ShapeSpec};
use crate::observe::cli;
use crate::observe::spy::{Sink, Spy};
use crate::oracle::groups;

#[derive(Clone, Debug, Serialize, Deserialize)]
pub enum Case {
    Lib {
        group: String,
        shape: ShapeSpec,
        lj: bool,
        replicas: u64,
        steps: u64,
        kt: f64,
        max_step: f64,
        jitter: u64,
        /// well depth of the state's LJ particles (public field; the constructors give 1)
        #[serde(default)]
        lj_eps: Option<f64>,
    },
    Cli { pre: Vec<String>, pos: Vec<String> },
}

fn viol(what: &str, c: &Case, detail: Value) -> Violation {
    let site = match c {
        Case::Lib { .. } => "optimise_state",
        Case::Cli { .. } => "cli",
    };
    Violation { kind: "c09.run".into(), signature: format!("{}:{}", site, what), case: serde_json::to_value(c).unwrap(), detail }
}

static TICK: AtomicU64 = AtomicU64::new(0);

/// Sink that delays inside score(): exactly the window between a parameter write and its
/// possible undo, where aliasing between replicas would become visible.
struct DelaySink {
    seed: u64,
    calls: u64,
    first_tick: u64,
    last_tick: u64,
}

impl<S: State> Sink<S> for DelaySink {
    fn on_score(&mut self, _inner: &S, _v: &[f64], _score: Option<f64>) {
        let t = TICK.fetch_add(1, Ordering::SeqCst);
        if self.calls == 0 {
            self.first_tick = t;
        }
        self.last_tick = t;
        self.calls += 1;
        if self.seed != 0 {
            let h = hash64(&[self.seed, self.calls]);
            match h % 16 {
                0 => std::thread::sleep(std::time::Duration::from_micros(h % 200)),
                1..=4 => std::thread::yield_now(),
                _ => {}
            }
        }
    }
}

fn stages(steps: u64, kt: f64, max_step: f64, index: u64) -> (BuildOptimiser, BuildOptimiser) {
    let mut a = BuildOptimiser::default();
    a.steps(steps).inner_steps((steps / 3).max(1)).kt_start(0.).kt_ratio(Some(0.)).max_step_size(max_step).seed(index);
    let mut b = BuildOptimiser::default();
    b.steps(steps).inner_steps((steps / 4).max(1)).kt_start(kt).kt_ratio(Some(0.2)).max_step_size(max_step).seed(index);
    (a, b)
}

fn optimise_replica<S: State + 'static>(base: &S, index: u64, steps: u64, kt: f64, max_step: f64, jitter: u64) -> (String, (u64, u64)) {
    let (a, b) = stages(steps, kt, max_step, index);
    if jitter == u64::MAX {
        // plain, unobserved
        let out = b.build().optimise_state(a.build().optimise_state(base.clone()));
        return (serde_json::to_string(&out).unwrap_or_default(), (0, 0));
    }
    let sink = Arc::new(Mutex::new(DelaySink { seed: if jitter == 0 { 0 } else { hash64(&[jitter, index]) | 1 }, calls: 0, first_tick: 0, last_tick: 0 }));
    let dynsink: Arc<Mutex<dyn Sink<S>>> = sink.clone();
    let spy = Spy::new(base.clone(), dynsink);
    let out = b.build().optimise_state(a.build().optimise_state(spy));
    let js = serde_json::to_string(&out).unwrap_or_default();
    let g = sink.lock().unwrap();
    (js, (g.first_tick, g.last_tick))
}

fn lib_diff<S: State + 'static>(base: S, c: &Case, replicas: u64, steps: u64, kt: f64, max_step: f64, jitter: u64, st: &mut Stats) {
    st.eval();
    // the first evaluation on this thread after the decoys, and the same state once more: one
    // state, one score
    let (first, again) = (base.score(), base.score());
    if first.map(f64::to_bits) != again.map(f64::to_bits) {
        st.violation(viol("result-depends-on-what-ran-before", c, json!({"what": "two consecutive evaluations of the same untouched state, the first one right after other states were evaluated on this thread", "first": first, "second": again})));
        return;
    }
    if base.score().map(|x| x.is_finite()) != Some(true) {
        st.count("lib_cases_skipped_initial_state_not_scored");
        return;
    }
    let base_json = serde_json::to_string(&base).unwrap_or_default();
    // reference: one after the other, unobserved
    let reference: Vec<String> = (0..replicas).map(|i| optimise_replica(&base, i, steps, kt, max_step, u64::MAX).0).collect();
    // a second sequential pass in reverse order (dependence on what ran before)
    for i in (0..replicas).rev() {
        let again = optimise_replica(&base, i, steps, kt, max_step, u64::MAX).0;
        if again != reference[i as usize] {
            st.violation(viol("result-depends-on-what-ran-before", c, json!({"replica": i, "first": reference[i as usize], "second": again})));
            return;
        }
    }
    let stop = AtomicBool::new(false);
    let mut overlapping_runs = 0u64;
    for (mode, threads) in [("rayon", 1usize), ("rayon", 2), ("rayon", 3), ("rayon", 5), ("rayon", 8), ("rayon", 16), ("threads", 0)].iter() {
        stop.store(false, Ordering::SeqCst);
        let mut watch_bad: Option<String> = None;
        let results: Vec<(String, (u64, u64))> = std::thread::scope(|sc| {
            // the original is watched while its clones are optimised
            let watcher = sc.spawn(|| {
                let mut bad = None;
                let mut n = 0u64;
                while !stop.load(Ordering::SeqCst) {
                    let now = serde_json::to_string(&base).unwrap_or_default();
                    n += 1;
                    if now != base_json {
                        bad = Some(now);
                        break;
                    }
                    std::thread::yield_now();
                }
                (bad, n)
            });
            let res: Vec<(String, (u64, u64))> = if *mode == "rayon" {
                let pool = rayon::ThreadPoolBuilder::new().num_threads(*threads).build().unwrap();
                pool.install(|| (0..replicas).into_par_iter().map(|i| optimise_replica(&base, i, steps, kt, max_step, jitter)).collect())
            } else {
                let hs: Vec<_> = (0..replicas).map(|i| { let b = &base; sc.spawn(move || optimise_replica(b, i, steps, kt, max_step, jitter)) }).collect();
                hs.into_iter().map(|h| h.join().unwrap_or_else(|_| (String::from("<panicked>"), (0, 0)))).collect()
            };
            stop.store(true, Ordering::SeqCst);
            let (bad, n) = watcher.join().unwrap_or((None, 0));
            watch_bad = bad;
            st.add("times_the_original_was_re-read_during_runs", n);
            res
        });
        if let Some(now) = watch_bad {
            st.violation(viol("original-changed-while-a-clone-was-optimised", c, json!({"mode": mode, "threads": threads, "original": base_json, "seen": now})));
            return;
        }
        for (i, (js, _)) in results.iter().enumerate() {
            if *js != reference[i] {
                let pos = js.bytes().zip(reference[i].bytes()).position(|(a, b)| a != b).unwrap_or(0);
                let lo = pos.saturating_sub(40);
                st.violation(viol(
                    "result-depends-on-threads-or-other-replicas",
                    c,
                    json!({"mode": mode, "threads": threads, "replica": i, "sequential": &reference[i][lo..(pos + 40).min(reference[i].len())], "concurrent": &js[lo..(pos + 40).min(js.len())]}),
                ));
                return;
            }
        }
        // did replicas genuinely overlap in time?
        let spans: Vec<(u64, u64)> = results.iter().map(|r| r.1).collect();
        let mut overl = 0;
        for a in 0..spans.len() {
            for b in (a + 1)..spans.len() {
                if spans[a].0 < spans[b].1 && spans[b].0 < spans[a].1 {
                    overl += 1;
                }
            }
        }
        if overl > 0 {
            overlapping_runs += 1;
        }
        st.count(&format!("lib_runs[{}:{}]", mode, threads));
    }
    if serde_json::to_string(&base).unwrap_or_default() != base_json {
        st.violation(viol("original-changed-by-optimising-a-clone", c, json!({"before": base_json})));
        return;
    }
    if overlapping_runs > 0 {
        st.nontrivial(hash_str(&serde_json::to_string(c).unwrap_or_default()));
        st.add("lib_runs_with_replicas_overlapping_in_time", overlapping_runs);
    }
    st.sample(|| json!({"case": c, "replicas": replicas, "modes": 7, "runs_with_overlap": overlapping_runs}));
}

/// Something else of the same kind runs first on this thread (a different shape with the same
/// name): the reference computed afterwards must not be influenced by it.
fn run_decoy(group: &str, shape: &ShapeSpec, lj: bool) {
    let decoy = match shape {
        ShapeSpec::Polygon { sides } => ShapeSpec::Polygon { sides: if *sides == 3 { 8 } else { sides - 1 } },
        ShapeSpec::Trimer { radius, angle, distance } => ShapeSpec::Trimer { radius: (radius * 0.7).max(0.2), angle: if *angle > 100. { angle - 55. } else { angle + 55. }, distance: distance * 1.4 },
        other => other.clone(),
    };
    if let Ok(wg) = lib_group(group) {
        let mut b = BuildOptimiser::default();
        b.steps(40).inner_steps(20).kt_start(0.1).kt_ratio(Some(0.)).max_step_size(0.05).seed(12345);
        if lj {
            if let Some(Ok(s)) = decoy.lj().map(|s| PotentialState::from_group(s, &wg)) {
                let _ = b.build().optimise_state(s).score();
            }
        } else if let Some(Ok(s)) = decoy.line().map(|s| PackedState::from_group(s, &wg)) {
            let _ = b.build().optimise_state(s).score();
        } else if let Some(Ok(s)) = decoy.mol().map(|s| PackedState::from_group(s, &wg)) {
            let _ = b.build().optimise_state(s).score();
        }
        // last of all (the very next evaluation on this thread is the reference's): a state that
        // cannot be scored at all - the same shape in a cell without area; whatever that leaves
        // behind must not reach the next evaluation
        if !lj {
            if let Some(Ok(mut s)) = shape.line().map(|s| PackedState::from_group(s, &wg)) {
                s.cell = packing::Cell2::from_family(s.wallpaper.family, 0.);
                let _ = s.score();
            } else if let Some(Ok(mut s)) = shape.mol().map(|s| PackedState::from_group(s, &wg)) {
                s.cell = packing::Cell2::from_family(s.wallpaper.family, 0.);
                let _ = s.score();
            }
        }
    }
}

pub fn check_lib(c: &Case, st: &mut Stats) {
    if let Case::Lib { group, shape, lj, replicas, steps, kt, max_step, jitter, lj_eps } = c {
        let wg = match lib_group(group) {
            Ok(g) => g,
            Err(e) => {
                st.inconclusive.push(e);
                return;
            }
        };
        run_decoy(group, shape, *lj);
        if *lj {
            if let Some(mut s) = shape.lj() {
                // a second decoy: the very same molecule but for one field of its particles
                // (well depth), scored first on the thread that computes the reference
                let mut twin = s.clone();
                for a in twin.items.iter_mut() {
                    a.epsilon = if lj_eps.is_some() { 1. } else { 2.5 };
                }
                if let Ok(t) = PotentialState::from_group(twin, &wg) {
                    let mut b = BuildOptimiser::default();
                    b.steps(30).inner_steps(15).kt_start(0.1).kt_ratio(Some(0.)).max_step_size(0.05).seed(54321);
                    let _ = b.build().optimise_state(t).score();
                }
                if let Some(e) = lj_eps {
                    for a in s.items.iter_mut() {
                        a.epsilon = *e;
                    }
                }
                if let Ok(s0) = PotentialState::from_group(s, &wg) {
                    lib_diff(s0, c, *replicas, *steps, *kt, *max_step, *jitter, st)
                }
            }
        } else if let Some(s) = shape.line() {
            if let Ok(s0) = PackedState::from_group(s, &wg) {
                lib_diff(s0, c, *replicas, *steps, *kt, *max_step, *jitter, st)
            }
        } else if let Some(s) = shape.mol() {
            if let Ok(s0) = PackedState::from_group(s, &wg) {
                lib_diff(s0, c, *replicas, *steps, *kt, *max_step, *jitter, st)
            }
        }
    }
}

/// (distinct outputs seen, schedules seen) for one argv over thread counts x jitters x repeats
pub fn check_cli(exe: &std::path::Path, tag: &str, c: &Case, repeats: u64, st: &mut Stats, schedules: &mut BTreeSet<String>) {
    if let Case::Cli { pre, pos } = c {
        st.eval();
        let pre_s: Vec<&str> = pre.iter().map(|s| s.as_str()).collect();
        let pos_s: Vec<&str> = pos.iter().map(|s| s.as_str()).collect();
        let mut first: Option<(String, String, String, String)> = None;
        let mut local_sched = BTreeSet::new();
        for threads in [1usize, 2, 3, 5, 8, 16].iter() {
            for jitter in 0..=repeats {
                let mut env = vec![("RAYON_NUM_THREADS", threads.to_string())];
                if jitter > 0 {
                    env.push(("PACKING_VERIF_JITTER", (jitter * 7919 + *threads as u64).to_string()));
                }
                let out = cli::run(exe, &format!("{}-{}-{}", tag, threads, jitter), &pre_s, &pos_s, &env, 300);
                if out.timed_out {
                    st.inconclusive.push("CLI watchdog expired".into());
                    return;
                }
                if out.status != Some(0) {
                    st.count("cli_runs_that_failed(not a C09 event; C20 decides)");
                    return;
                }
                st.count("cli_runs_compared");
                let desc = format!("RAYON_NUM_THREADS={} jitter={}", threads, jitter);
                let cur = (out.json.clone().unwrap_or_default(), out.svg.clone().unwrap_or_default(), out.final_score_logged().unwrap_or_default(), desc.clone());
                // schedule actually taken: replica -> thread, and completion order
                let ev = parse_hook_log(&out.hook_log);
                let map: Vec<String> = {
                    let mut m: Vec<(i64, i64)> = ev.iter().filter(|e| e.kind == "stage" && e.stage == 1).map(|e| (e.replica, e.thread)).collect();
                    m.sort();
                    m.iter().map(|(r, t)| format!("{}@{}", r, t)).collect()
                };
                let order: Vec<String> = ev.iter().filter(|e| e.kind == "stage" && e.stage == 3).map(|e| e.replica.to_string()).collect();
                local_sched.insert(format!("{}|{}", map.join(","), order.join(">")));
                match &first {
                    None => first = Some(cur),
                    Some(f) => {
                        for (name, a, b) in [("json", &f.0, &cur.0), ("svg", &f.1, &cur.1), ("logged-score", &f.2, &cur.2)].iter() {
                            if a != b {
                                let p = a.bytes().zip(b.bytes()).position(|(x, y)| x != y).unwrap_or(0);
                                let lo = p.saturating_sub(40);
                                st.violation(viol(
                                    "output-depends-on-the-schedule",
                                    c,
                                    json!({"file": name, "run_a": f.3, "run_b": desc, "a": &a[lo.min(a.len())..(p + 40).min(a.len())], "b": &b[lo.min(b.len())..(p + 40).min(b.len())]}),
                                ));
                                return;
                            }
                        }
                    }
                }
            }
        }
        st.add("distinct_schedules_observed_for_this_argv", local_sched.len() as u64);
        if local_sched.len() >= 2 {
            st.nontrivial(hash_str(&format!("{:?}{:?}", pre, pos)));
        }
        st.sample(|| json!({"argv": [pre, pos], "runs": 6 * (repeats + 1), "distinct_schedules": local_sched.len(), "example_schedule": local_sched.iter().next()}));
        schedules.extend(local_sched);
    }
}

fn sv(v: &[&str]) -> Vec<String> {
    v.iter().map(|s| s.to_string()).collect()
}

pub fn cli_cases(n: usize) -> Vec<Case> {
    let all = vec![
        Case::Cli { pre: sv(&["--replications", "8", "--steps", "400", "--inner-steps", "100"]), pos: sv(&["p2", "polygon", "--sides", "4"]) },
        Case::Cli { pre: sv(&["--replications", "6", "--steps", "300", "--inner-steps", "100", "-p", "LJ"]), pos: sv(&["p2mg", "trimer"]) },
        Case::Cli { pre: sv(&["--replications", "12", "--steps", "300"]), pos: sv(&["p1g1", "trimer"]) },
        Case::Cli { pre: sv(&["--replications", "7", "--steps", "500", "--kt-finish", "0.001", "--inner-steps", "50"]), pos: sv(&["p2gg", "circle"]) },
        Case::Cli { pre: sv(&["--replications", "9", "--steps", "300", "-p", "LJ"]), pos: sv(&["p1", "circle"]) },
        Case::Cli { pre: sv(&["--replications", "16", "--steps", "200", "--max-step-size", "0.1"]), pos: sv(&["p2mm", "polygon", "--sides", "3"]) },
        Case::Cli { pre: sv(&["--replications", "10", "--steps", "300", "--convergence", "1e-4", "--inner-steps", "30"]), pos: sv(&["p1m1", "polygon", "--sides", "6"]) },
        Case::Cli { pre: sv(&["--replications", "5", "--steps", "1000", "--kt-ratio", "0.3", "--inner-steps", "100"]), pos: sv(&["p2", "trimer", "--radius", "0.8", "--angle", "100"]) },
    ];
    let mut all = all;
    // zero-temperature quenches of soft LJ systems in the four-molecule groups: a score that
    // differs in its last bits sends the trajectory elsewhere
    for g in ["p2mm", "p2mg", "p2gg", "p2", "p1m1", "p1g1", "p1"].iter() {
        all.push(Case::Cli { pre: sv(&["--replications", "2", "--steps", "1000", "-p", "LJ"]), pos: sv(&[g, "circle"]) });
    }
    // many replicas converging onto near-tied scores: the choice among them must not depend
    // on how the reduction was split over threads
    all.push(Case::Cli { pre: sv(&["--replications", "48", "--steps", "150", "--max-step-size", "0.02", "-p", "LJ"]), pos: sv(&["p1", "circle"]) });
    all.push(Case::Cli { pre: sv(&["--replications", "40", "--steps", "400", "--max-step-size", "0.02", "-p", "LJ"]), pos: sv(&["p2", "circle"]) });
    all.push(Case::Cli { pre: sv(&["--replications", "32", "--steps", "600", "--max-step-size", "0.05"]), pos: sv(&["p1", "polygon", "--sides", "4"]) });
    // replicas that finish on bit-identical scores in different states (moves below the
    // resolution of the cell, or so large that every move is clipped to a bound)
    all.push(Case::Cli { pre: sv(&["--replications", "16", "--steps", "200", "--max-step-size", "1e-18"]), pos: sv(&["p1", "circle"]) });
    all.push(Case::Cli { pre: sv(&["--replications", "24", "--steps", "200", "--max-step-size", "1e6"]), pos: sv(&["p2", "polygon", "--sides", "4"]) });
    all.push(Case::Cli { pre: sv(&["--replications", "20", "--steps", "150", "--max-step-size", "1e300", "-p", "LJ"]), pos: sv(&["p1", "circle"]) });
    all.into_iter().take(n).collect()
}

pub fn run(ctx: &Ctx) {
    ctx.set_rule("library: clones of one state (all groups, hard and LJ, LJ well depths 0.25-3.5; decoys of the same shape name with another geometry and of the same geometry with another well depth run first on the reference thread) are optimised with seeds 0..R sequentially (reference, twice, second pass in reverse order) and then concurrently on rayon pools of 1,2,3,5,8,16 threads and on raw threads, each clone wrapped in a Spy that sleeps/yields inside score() on a seeded schedule; every result's JSON must equal the reference byte for byte; the original is re-serialised continuously by a watcher thread during the runs and compared before/after. CLI: the real binary for 8 argvs under RAYON_NUM_THREADS in {1,2,3,5,8,16} x jitter seeds (hook-injected 0-2 ms delays at stage starts) x repeats: .json, .svg and logged score byte-identical; the hook log gives the replica->thread map and completion order of each run (distinct schedules are counted; fewer than 4 makes the run inconclusive). Thorough tier adds ThreadSanitizer, Miri and memcheck legs (reports = violations). Non-trivial = library cases in which replicas overlapped in time, argvs for which >= 2 distinct schedules were observed");
    ctx.assume("schedules are sampled, not enumerated; absence of sanitizer reports says nothing about paths not driven");
    let n_lib = ctx.tier.pick(2u64, 16u64);
    par_shards(ctx, 9, 16, |_, rng, st| {
        for _ in 0..n_lib {
            let lj = rng.gen_bool(0.4);
            let shape = if lj { libx::gen::trimer(rng) } else { libx::gen::hard_shape(rng) };
            let c = Case::Lib {
                group: groups::NAMES[rng.gen_range(0, 7)].to_string(),
                shape,
                lj,
                replicas: rng.gen_range(4, 13),
                steps: rng.gen_range(60, 400),
                kt: [0., 0.1, 1.][rng.gen_range(0, 3)],
                max_step: [0.01, 0.1, 0.5][rng.gen_range(0, 3)],
                jitter: rng.gen_range(1, 1_000_000),
                lj_eps: if lj && rng.gen_bool(0.5) { Some([0.25, 2., 3.5][rng.gen_range(0, 3)]) } else { None },
            };
            check_lib(&c, st);
        }
    });
    {
        let mut st = Stats::new();
        for (i, (g, sides)) in [("p1", 4usize), ("p1", 3), ("p2", 5)].iter().enumerate() {
            let c = Case::Lib { group: g.to_string(), shape: ShapeSpec::Polygon { sides: *sides }, lj: false, replicas: 4, steps: 200, kt: 0.1, max_step: 0.05, jitter: 2000 + i as u64 + ctx.seed, lj_eps: None };
            check_lib(&c, &mut st);
        }
        for (i, g) in ["p2mm", "p2mg", "p2gg"].iter().enumerate() {
            let c = Case::Lib { group: g.to_string(), shape: ShapeSpec::Circle, lj: true, replicas: 4, steps: 700, kt: 0., max_step: 0.05, jitter: 1000 + i as u64 + ctx.seed, lj_eps: if i == 1 { Some(2.) } else { None } };
            check_lib(&c, &mut st);
        }
        ctx.merge(st);
    }
    if let Some(exe) = ctx.args.cli.clone() {
        let cases = cli_cases(ctx.tier.pick(21usize, 21usize));
        let repeats = ctx.tier.pick(1u64, 6u64);
        let seed = ctx.seed;
        let results: Vec<(Stats, BTreeSet<String>)> = cases
            .par_iter()
            .enumerate()
            .map(|(i, c)| {
                let mut st = Stats::new();
                let mut sch = BTreeSet::new();
                check_cli(&exe, &format!("c09-{}-{}", seed, i), c, repeats, &mut st, &mut sch);
                (st, sch)
            })
            .collect();
        let mut all_sched = BTreeSet::new();
        for (s, sch) in results {
            ctx.merge(s);
            all_sched.extend(sch);
        }
        ctx.extra("distinct_cli_schedules_observed", json!(all_sched.len()));
        ctx.extra("example_cli_schedules", json!(all_sched.iter().take(5).collect::<Vec<_>>()));
        if all_sched.len() < 4 {
            ctx.inconclusive(&format!("only {} distinct CLI schedules observed", all_sched.len()));
        }
    } else {
        ctx.inconclusive("packing binary not available (PV_CLI unset)");
    }
    // sanitizer legs (run by ./check in the thorough tier) hand their summary over in a file
    if let Ok(p) = std::env::var("PV_SAN_SUMMARY") {
        crate::props::san::merge_summary(ctx, &p);
    }
    ctx.set_min_nontrivial(8);
}

pub fn replay(ctx: &Ctx, case: &Value) {
    let mut st = Stats::new();
    match serde_json::from_value::<Case>(case.clone()) {
        Ok(c @ Case::Lib { .. }) => check_lib(&c, &mut st),
        Ok(c @ Case::Cli { .. }) => {
            if let Some(exe) = ctx.args.cli.clone() {
                let mut s = BTreeSet::new();
                check_cli(&exe, "c09-replay", &c, 4, &mut st, &mut s);
            }
        }
        Err(_) => {}
    }
    ctx.merge(st);
}
