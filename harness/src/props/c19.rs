//! C19 - no Monte-Carlo move is larger than the configured maximum step.
use std::f64::consts::PI;

use packing::traits::State;
use packing::{PackedState, PotentialState};
use rand::Rng;
use serde::{Deserialize, Serialize};
use serde_json::{json, Value};

use super::mc::{self, OptCfg, RunReport, ScriptedCase};
use crate::common::*;
use crate::libx::{self, lib_group, ShapeSpec};
use crate::oracle::groups;

#[derive(Clone, Debug, Serialize, Deserialize)]
pub enum Case {
    Scripted(ScriptedCase),
    Real { group: String, shape: ShapeSpec, lj: bool, cfg: OptCfg },
}

fn cfg_of(c: &Case) -> &OptCfg {
    match c {
        Case::Scripted(s) => &s.cfg,
        Case::Real { cfg, .. } => cfg,
    }
}

pub fn judge(c: &Case, r: &RunReport, st: &mut Stats) {
    st.eval();
    if r.panicked.is_some() {
        st.count("runs_that_panicked(not a C19 event; C20 decides)");
        return;
    }
    let cfg = cfg_of(c);
    let loops = cfg.loops();
    st.add("proposals_measured", r.monitor.calls.saturating_sub(1) as u64);
    if loops >= 3 {
        st.nontrivial(hash64(&[hash_str(&serde_json::to_string(c).unwrap_or_default())]));
        st.count(if loops >= 20 { "runs_with_20+_loops" } else { "runs_with_3-19_loops" });
    }
    // a move of more than one parameter is also a C19 event ("at most one parameter")
    if let Some(v) = r.monitor.violations.iter().find(|v| v.what.starts_with("proposal")) {
        st.violation(Violation { kind: "c19.run".into(), signature: "optimise_state:proposal-changes-more-than-one-parameter".into(), case: serde_json::to_value(c).unwrap(), detail: v.detail.clone() });
        return;
    }
    // largest move (in units of half the parameter's range) over all proposals, measured
    // against the most favourable possible parent
    let limit = cfg.max_step_size * (1. + 1e-9) + 1e-9;
    let worst = r.monitor.max_move_over_halfrange;
    let b = if worst <= 0.25 * cfg.max_step_size { "<25%" } else if worst <= 0.9 * cfg.max_step_size { "25-90%" } else { "90-100%" };
    st.count(&format!("largest_move_as_fraction_of_limit[{}]", b));
    if worst > limit {
        st.violation(Violation {
            kind: "c19.run".into(),
            signature: "optimise_state:move-exceeds-max-step".into(),
            case: serde_json::to_value(c).unwrap(),
            detail: json!({"max_step_size": cfg.max_step_size, "largest_move_over_half_range": worst, "factor_over_limit": worst / cfg.max_step_size, "witness": r.monitor.worst_move,
                "inner_loop_of_witness": r.monitor.worst_move.as_ref().and_then(|w| w["call"].as_u64()).map(|c| (c.saturating_sub(1)) / cfg.effective_inner().max(1))}),
        });
        return;
    }
    st.sample(|| json!({"case": c, "largest_move_over_half_range": worst, "limit": cfg.max_step_size, "loops": loops}));
}

fn declared_ranges<T: State>(s: &T, group: &str) -> Vec<(f64, f64)> {
    // from the property statement, evaluated at the stage start; returned in basis order
    let v = libx::basis_values(s);
    let layout = libx::basis_layout(group).unwrap_or_else(|_| (0..v.len()).collect());
    let mut out = vec![(0.01, v[layout[0]]), (0.1, v[layout[1]])];
    if libx::is_oblique(group) {
        out.push((PI / 6., PI / 2.));
    }
    out.push((-0.5, 0.5));
    out.push((-0.5, 0.5));
    out.push((0., 2. * PI));
    libx::to_basis_order(group, &out).unwrap_or(out)
}

pub fn check(c: &Case, st: &mut Stats) {
    match c {
        Case::Scripted(sc) => {
            let r = mc::run_scripted(sc, false);
            judge(c, &r, st);
        }
        Case::Real { group, shape, lj, cfg } => {
            let wg = match lib_group(group) {
                Ok(g) => g,
                Err(e) => {
                    st.inconclusive.push(e);
                    return;
                }
            };
            macro_rules! go {
                ($state:expr) => {{
                    match $state {
                        Ok(s0) => {
                            if s0.score().map(|x| x.is_finite()) != Some(true) {
                                st.count("real_initial_state_not_scored(skipped)");
                                return;
                            }
                            if s0.generate_basis().len() != libx::expected_dof(group) {
                                st.inconclusive.push("unexpected number of free parameters".into());
                                return;
                            }
                            let d = declared_ranges(&s0, group);
                            let rr = mc::run_real(s0, cfg, Some(d), false, false);
                            judge(c, &rr.report, st);
                        }
                        Err(e) => st.inconclusive.push(e.to_string()),
                    }
                }};
            }
            if *lj {
                if let Some(s) = shape.lj() {
                    go!(PotentialState::from_group(s, &wg))
                }
            } else if let Some(s) = shape.line() {
                go!(PackedState::from_group(s, &wg))
            } else if let Some(s) = shape.mol() {
                go!(PackedState::from_group(s, &wg))
            }
        }
    }
}

pub fn gen_case<R: Rng>(rng: &mut R, real: bool) -> Case {
    let kt = mc::rand_kt(rng);
    if real {
        let mut cfg = mc::rand_cfg(rng, kt, 5000);
        cfg.inner_steps = (cfg.steps / rng.gen_range(3, 40)).max(1);
        cfg.max_step_size = 10f64.powf(rng.gen_range(-3., -0.3));
        cfg.convergence = None;
        let lj = rng.gen_bool(0.4);
        let shape = if lj { ShapeSpec::Trimer { radius: 0.637556, angle: 120., distance: 1. } } else { libx::gen::hard_shape(rng) };
        Case::Real { group: groups::NAMES[rng.gen_range(0, 7)].to_string(), shape, lj, cfg }
    } else {
        let mut sc = mc::rand_scripted_case(rng, kt, 20_000);
        // many loops, so that the adaptation of the step acts many times
        let loops = [1, 2, 3, 5, 10, 50][rng.gen_range(0, 6)];
        sc.cfg.inner_steps = (sc.cfg.steps / loops).max(1);
        // (down to 1e-8: limits below any internal floor of the adaptation count as well)
        sc.cfg.max_step_size = 10f64.powf(rng.gen_range(-8., 0.));
        if rng.gen_bool(0.7) {
            sc.cfg.convergence = None;
        }
        Case::Scripted(sc)
    }
}

pub fn run(ctx: &Ctx) {
    ctx.set_rule("every proposal of optimise_state is measured against every possible current state (trace monitor): its single changed parameter may move by at most max_step_size x half the parameter's range (ranges: the chosen bounds of scripted states; for real hard/LJ states the ranges declared by the property at stage start). Rejection histories are forced by scripts (0/50/75/99/100% rejection per loop, reject runs, alternation, undefined scores), 1..50 inner loops (the step adaptation acts between loops), steps 1e-8..1, k = 1..24 parameters, all temperatures. Non-trivial = runs with >= 3 inner loops; distinct by case");
    let n_s = ctx.tier.pick(70u64, 3_500u64);
    let n_r = ctx.tier.pick(6u64, 250u64);
    let prev = std::panic::take_hook();
    std::panic::set_hook(Box::new(|_| {}));
    par_shards(ctx, 19, 64, |_, rng, st| {
        for _ in 0..n_s {
            check(&gen_case(rng, false), st);
        }
        for _ in 0..n_r {
            check(&gen_case(rng, true), st);
        }
    });
    std::panic::set_hook(prev);
    ctx.set_min_nontrivial(200);
}

pub fn replay(ctx: &Ctx, case: &Value) {
    let prev = std::panic::take_hook();
    std::panic::set_hook(Box::new(|_| {}));
    let mut st = Stats::new();
    if let Ok(c) = serde_json::from_value::<Case>(case.clone()) {
        check(&c, &mut st);
    }
    std::panic::set_hook(prev);
    ctx.merge(st);
}
