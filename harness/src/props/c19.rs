//! C19 - no Monte-Carlo move is larger than the configured maximum step.
use std::f64::consts::PI;

use packing::traits::State;
use packing::{PackedState, PotentialState};
use rand::Rng;
use serde::{Deserialize, Serialize};
use serde_json::{json, Value};

use super::mc::{self, OptCfg, RunReport, ScriptedCase};
use crate::common::*;
use crate::libx::{self, lib_group, ShapeSpec};
use crate::oracle::groups;

#[derive(Clone, Debug, Serialize, Deserialize)]
pub enum Case {
    Scripted(ScriptedCase),
    Real { group: String, shape: ShapeSpec, lj: bool, cfg: OptCfg },
    /// very long rejection histories: whole inner loops are rejected (`phases`: (loops, accept))
    /// until whatever the adaptation does with a step that nothing accepts has happened, then
    /// loops are accepted again.  Runs of 1e9 proposals: a lean state, no trace monitor.
    Freeze {
        inner: u64,
        phases: Vec<(u64, bool)>,
        max_step_size: f64,
        k: usize,
        seed: u64,
        /// Some(c): in rejecting phases every (c+1)-th loop accepts its first proposal (an
        /// improvement) and rejects the rest - a run that keeps just short of `convergence`
        #[serde(default)]
        cadence: Option<u64>,
        #[serde(default)]
        convergence: Option<f64>,
    },
}

/// lean state for the freeze runs: the score is undefined in rejecting loops and grows with
/// every call in accepting ones; every proposal is measured against the last accepted vector
struct FreezeState {
    vals: Vec<packing::SharedValue>,
    core: std::sync::Arc<FreezeCore>,
}
struct FreezeCore {
    inner: u64,
    /// (first call of the phase, accept)
    phases: Vec<(u64, bool)>,
    calls: std::sync::atomic::AtomicU64,
    accepted: Vec<std::sync::atomic::AtomicU64>,
    worst_bits: std::sync::atomic::AtomicU64,
    worst_call: std::sync::atomic::AtomicU64,
    multi: std::sync::atomic::AtomicU64,
    cadence: Option<u64>,
}
const FREEZE_HALF_RANGE: f64 = 1.0;
impl State for FreezeState {
    fn score(&self) -> Option<f64> {
        use std::sync::atomic::Ordering::Relaxed;
        let c = &*self.core;
        let n = c.calls.fetch_add(1, Relaxed);
        let mut moved = 0;
        let mut worst = 0f64;
        for (v, a) in self.vals.iter().zip(c.accepted.iter()) {
            let x = v.get_value();
            let y = f64::from_bits(a.load(Relaxed));
            if x.to_bits() != y.to_bits() {
                moved += 1;
                worst = worst.max((x - y).abs() / FREEZE_HALF_RANGE);
            }
        }
        if n == 0 {
            for (v, a) in self.vals.iter().zip(c.accepted.iter()) {
                a.store(v.get_value().to_bits(), Relaxed);
            }
            return Some(0.);
        }
        if moved > 1 {
            c.multi.fetch_add(1, Relaxed);
        }
        if worst > f64::from_bits(c.worst_bits.load(Relaxed)) {
            c.worst_bits.store(worst.to_bits(), Relaxed);
            c.worst_call.store(n, Relaxed);
        }
        let mut accept = c.phases.iter().rev().find(|(from, _)| n >= *from).map(|p| p.1).unwrap_or(true);
        if let (false, Some(cad)) = (accept, c.cadence) {
            let l = (n - 1) / c.inner;
            accept = l % (cad + 1) == cad && (n - 1) % c.inner == 0;
        }
        if accept {
            for (v, a) in self.vals.iter().zip(c.accepted.iter()) {
                a.store(v.get_value().to_bits(), Relaxed);
            }
            Some(n as f64)
        } else {
            None
        }
    }
    fn generate_basis(&self) -> Vec<packing::StandardBasis> {
        self.vals.iter().map(|v| packing::StandardBasis::new(v, -FREEZE_HALF_RANGE, FREEZE_HALF_RANGE)).collect()
    }
    fn total_shapes(&self) -> usize {
        1
    }
    fn as_positions(&self) -> Result<String, anyhow::Error> {
        Ok(String::new())
    }
}
impl Clone for FreezeState {
    fn clone(&self) -> Self {
        FreezeState { vals: self.vals.iter().map(|v| packing::SharedValue::new(v.get_value())).collect(), core: self.core.clone() }
    }
}
impl std::fmt::Debug for FreezeState {
    fn fmt(&self, f: &mut std::fmt::Formatter) -> std::fmt::Result {
        write!(f, "FreezeState")
    }
}
impl serde::Serialize for FreezeState {
    fn serialize<Z: serde::Serializer>(&self, s: Z) -> Result<Z::Ok, Z::Error> {
        s.serialize_unit()
    }
}
impl PartialEq for FreezeState {
    fn eq(&self, _: &Self) -> bool {
        true
    }
}
impl Eq for FreezeState {}
impl PartialOrd for FreezeState {
    fn partial_cmp(&self, _: &Self) -> Option<std::cmp::Ordering> {
        Some(std::cmp::Ordering::Equal)
    }
}
impl Ord for FreezeState {
    fn cmp(&self, _: &Self) -> std::cmp::Ordering {
        std::cmp::Ordering::Equal
    }
}
impl packing::traits::ToSVG for FreezeState {
    type Value = svg::Document;
    fn as_svg(&self) -> svg::Document {
        svg::Document::new()
    }
}

fn check_freeze(c: &Case, st: &mut Stats) {
    use std::sync::atomic::{AtomicU64, Ordering::Relaxed};
    let (inner, phases, max_step_size, k, seed) = match c {
        Case::Freeze { inner, phases, max_step_size, k, seed, .. } => (*inner, phases, *max_step_size, *k, *seed),
        _ => return,
    };
    let (cadence, convergence) = match c {
        Case::Freeze { cadence, convergence, .. } => (*cadence, *convergence),
        _ => (None, None),
    };
    st.eval();
    let loops: u64 = phases.iter().map(|p| p.0).sum();
    let mut from = 1u64;
    let mut ph = vec![];
    for (l, a) in phases.iter() {
        ph.push((from, *a));
        from += l * inner;
    }
    let core = std::sync::Arc::new(FreezeCore {
        inner,
        phases: ph,
        calls: AtomicU64::new(0),
        accepted: (0..k).map(|_| AtomicU64::new(0)).collect(),
        worst_bits: AtomicU64::new(0f64.to_bits()),
        worst_call: AtomicU64::new(0),
        multi: AtomicU64::new(0),
        cadence,
    });
    let state = FreezeState { vals: (0..k).map(|_| packing::SharedValue::new(0.)).collect(), core: core.clone() };
    let cfg = OptCfg { steps: loops * inner, inner_steps: inner, kt_start: 0., kt_finish: None, kt_ratio: Some(0.), max_step_size, seed, convergence, builder_history: None };
    let b = match cfg.builder() {
        Ok(b) => b,
        Err(e) => {
            st.inconclusive.push(e);
            return;
        }
    };
    let r = std::panic::catch_unwind(std::panic::AssertUnwindSafe(|| {
        let _ = b.build().optimise_state(state);
    }));
    if r.is_err() {
        st.count("runs_that_panicked(not a C19 event; C20 decides)");
        return;
    }
    let calls = core.calls.load(Relaxed);
    st.add("proposals_measured", calls.saturating_sub(2));
    st.add("proposals_measured_in_freeze_runs", calls.saturating_sub(2));
    st.nontrivial(hash64(&[hash_str(&serde_json::to_string(c).unwrap_or_default())]));
    st.count(&format!("freeze_runs[inner {}]", if inner > 10_000 { ">1e4" } else if inner > 100 { "101..1e4" } else { "<=100" }));
    let _ = core.inner;
    if calls < loops * inner {
        st.inconclusive.push(format!("freeze run made {} evaluations, {} proposals were configured", calls, loops * inner));
        return;
    }
    if core.multi.load(Relaxed) > 0 {
        st.violation(Violation { kind: "c19.run".into(), signature: "optimise_state:proposal-changes-more-than-one-parameter".into(), case: serde_json::to_value(c).unwrap(), detail: json!({"proposals_with_more_than_one_changed_parameter": core.multi.load(Relaxed)}) });
        return;
    }
    let worst = f64::from_bits(core.worst_bits.load(Relaxed));
    if worst > max_step_size * (1. + 1e-9) + 1e-9 {
        let call = core.worst_call.load(Relaxed);
        st.violation(Violation {
            kind: "c19.run".into(),
            signature: "optimise_state:move-exceeds-max-step".into(),
            case: serde_json::to_value(c).unwrap(),
            detail: json!({"max_step_size": max_step_size, "largest_move_over_half_range": worst, "factor_over_limit": worst / max_step_size, "proposal": call, "inner_loop_of_witness": (call - 1) / inner, "phases(loops, accepted)": phases}),
        });
        return;
    }
    st.sample(|| json!({"case": c, "largest_move_over_half_range": worst, "limit": max_step_size, "proposals": calls}));
}

/// rejecting loops enough for a step that shrinks by inner/(inner+1) per fully rejected loop to
/// fall by `decades` powers of ten, then accepting loops, then both again
fn freeze_case(inner: u64, decades: f64, seed: u64) -> Case {
    let n = (decades * std::f64::consts::LN_10 * (inner as f64 + 1.)).ceil() as u64 + 2;
    Case::Freeze { inner, phases: vec![(n, false), (3, true), (40, false), (3, true)], max_step_size: [1., 0.5, 0.01][(seed % 3) as usize], k: 3, seed, cadence: None, convergence: None }
}

/// the same with a convergence threshold set: the run stalls for `cad` (1..5) fully rejected
/// loops at a time and then improves once, so that it never converges while the step keeps
/// shrinking; then one stalled loop, accepting loops, and both again
fn stalled_freeze_case(inner: u64, decades: f64, cad: u64, seed: u64) -> Case {
    let n = (decades * std::f64::consts::LN_10 * (inner as f64 + 1.)).ceil() as u64 + 2;
    // only cad of every cad+1 loops shrink the step
    let mut total = n * (cad + 1) / cad + cad + 2;
    // end the rejecting phase on a stalled loop
    while total % (cad + 1) == 0 {
        total += 1;
    }
    Case::Freeze { inner, phases: vec![(total, false), (3, true), (cad + 1, false), (2, true), (2 * (cad + 1), false), (2, true)], max_step_size: [1., 0.5, 0.01][(seed % 3) as usize], k: 3, seed, cadence: Some(cad), convergence: Some(0.5) }
}

fn cfg_of(c: &Case) -> &OptCfg {
    match c {
        Case::Freeze { .. } => unreachable!("freeze cases are judged by check_freeze"),
        Case::Scripted(s) => &s.cfg,
        Case::Real { cfg, .. } => cfg,
    }
}

pub fn judge(c: &Case, r: &RunReport, st: &mut Stats) {
    st.eval();
    if r.panicked.is_some() {
        st.count("runs_that_panicked(not a C19 event; C20 decides)");
        return;
    }
    let cfg = cfg_of(c);
    let loops = cfg.loops();
    st.add("proposals_measured", r.monitor.calls.saturating_sub(1) as u64);
    if loops >= 3 {
        st.nontrivial(hash64(&[hash_str(&serde_json::to_string(c).unwrap_or_default())]));
        st.count(if loops >= 20 { "runs_with_20+_loops" } else { "runs_with_3-19_loops" });
    }
    // a move of more than one parameter is also a C19 event ("at most one parameter")
    if let Some(v) = r.monitor.violations.iter().find(|v| v.what.starts_with("proposal")) {
        st.violation(Violation { kind: "c19.run".into(), signature: "optimise_state:proposal-changes-more-than-one-parameter".into(), case: serde_json::to_value(c).unwrap(), detail: v.detail.clone() });
        return;
    }
    // largest move (in units of half the parameter's range) over all proposals, measured
    // against the most favourable possible parent
    let limit = cfg.max_step_size * (1. + 1e-9) + 1e-9;
    let worst = r.monitor.max_move_over_halfrange;
    let b = if worst <= 0.25 * cfg.max_step_size { "<25%" } else if worst <= 0.9 * cfg.max_step_size { "25-90%" } else { "90-100%" };
    st.count(&format!("largest_move_as_fraction_of_limit[{}]", b));
    if worst > limit {
        st.violation(Violation {
            kind: "c19.run".into(),
            signature: "optimise_state:move-exceeds-max-step".into(),
            case: serde_json::to_value(c).unwrap(),
            detail: json!({"max_step_size": cfg.max_step_size, "largest_move_over_half_range": worst, "factor_over_limit": worst / cfg.max_step_size, "witness": r.monitor.worst_move,
                "inner_loop_of_witness": r.monitor.worst_move.as_ref().and_then(|w| w["call"].as_u64()).map(|c| (c.saturating_sub(1)) / cfg.effective_inner().max(1))}),
        });
        return;
    }
    st.sample(|| json!({"case": c, "largest_move_over_half_range": worst, "limit": cfg.max_step_size, "loops": loops}));
}

fn declared_ranges<T: State>(s: &T, group: &str) -> Vec<(f64, f64)> {
    // from the property statement, evaluated at the stage start; returned in basis order
    let v = libx::basis_values(s);
    let layout = libx::basis_layout(group).unwrap_or_else(|_| (0..v.len()).collect());
    let mut out = vec![(0.01, v[layout[0]]), (0.1, v[layout[1]])];
    if libx::is_oblique(group) {
        out.push((PI / 6., PI / 2.));
    }
    out.push((-0.5, 0.5));
    out.push((-0.5, 0.5));
    out.push((0., 2. * PI));
    libx::to_basis_order(group, &out).unwrap_or(out)
}

pub fn check(c: &Case, st: &mut Stats) {
    match c {
        Case::Freeze { .. } => check_freeze(c, st),
        Case::Scripted(sc) => {
            let r = mc::run_scripted(sc, false);
            judge(c, &r, st);
        }
        Case::Real { group, shape, lj, cfg } => {
            let wg = match lib_group(group) {
                Ok(g) => g,
                Err(e) => {
                    st.inconclusive.push(e);
                    return;
                }
            };
            macro_rules! go {
                ($state:expr) => {{
                    match $state {
                        Ok(s0) => {
                            if s0.score().map(|x| x.is_finite()) != Some(true) {
                                st.count("real_initial_state_not_scored(skipped)");
                                return;
                            }
                            if s0.generate_basis().len() != libx::expected_dof(group) {
                                st.inconclusive.push("unexpected number of free parameters".into());
                                return;
                            }
                            let d = declared_ranges(&s0, group);
                            let rr = mc::run_real(s0, cfg, Some(d), false, false);
                            judge(c, &rr.report, st);
                        }
                        Err(e) => st.inconclusive.push(e.to_string()),
                    }
                }};
            }
            if *lj {
                if let Some(s) = shape.lj() {
                    go!(PotentialState::from_group(s, &wg))
                }
            } else if let Some(s) = shape.line() {
                go!(PackedState::from_group(s, &wg))
            } else if let Some(s) = shape.mol() {
                go!(PackedState::from_group(s, &wg))
            }
        }
    }
}

pub fn gen_case<R: Rng>(rng: &mut R, real: bool) -> Case {
    let kt = mc::rand_kt(rng);
    if real {
        let mut cfg = mc::rand_cfg(rng, kt, 5000);
        cfg.inner_steps = if rng.gen_range(0, 4) == 0 { rng.gen_range(1, 4) } else { (cfg.steps / rng.gen_range(3, 40)).max(1) };
        cfg.max_step_size = 10f64.powf(rng.gen_range(-3., -0.3));
        cfg.convergence = None;
        let lj = rng.gen_bool(0.4);
        let shape = if lj { ShapeSpec::Trimer { radius: 0.637556, angle: 120., distance: 1. } } else { libx::gen::hard_shape(rng) };
        Case::Real { group: groups::NAMES[rng.gen_range(0, 7)].to_string(), shape, lj, cfg }
    } else {
        let mut sc = mc::rand_scripted_case(rng, kt, 20_000);
        // many loops, so that the adaptation of the step acts many times
        let loops = [1, 2, 3, 5, 10, 50, 0, 0][rng.gen_range(0, 8)];
        // (0: loops of 1-4 proposals, hundreds of adaptations per run)
        sc.cfg.inner_steps = if loops == 0 { rng.gen_range(1, 5) } else { (sc.cfg.steps / loops).max(1) };
        // (down to 1e-8: limits below any internal floor of the adaptation count as well)
        sc.cfg.max_step_size = 10f64.powf(rng.gen_range(-8., 0.));
        if rng.gen_bool(0.7) {
            sc.cfg.convergence = None;
        }
        Case::Scripted(sc)
    }
}

/// The tool's own pipeline: with `--max-step-size s` no parameter of the written structure can
/// be further from the starting structure than the number of proposals times s times half its
/// range; with s = 0 the written structure IS the starting structure.
fn cli_leg(ctx: &Ctx, st: &mut Stats) {
    use crate::observe::cli;
    let exe = match ctx.args.cli.clone() {
        Some(e) => e,
        None => {
            st.count("cli_leg_skipped(no binary)");
            return;
        }
    };
    let runs: Vec<(&str, Vec<&str>, bool)> = vec![
        ("p1", vec!["polygon", "--sides", "4"], false),
        ("p2", vec!["trimer"], true),
        ("p2gg", vec!["polygon", "--sides", "3"], false),
        ("p2mg", vec!["circle"], false),
        ("p1g1", vec!["polygon", "--sides", "5"], false),
        ("p2mm", vec!["circle"], true),
    ];
    for (i, (group, shape, lj)) in runs.iter().enumerate() {
        for (j, s) in ["0", "1e-9", "1e-6"].iter().enumerate() {
            st.eval();
            let steps = [20u64, 50, 10][j];
            let steps_s = steps.to_string();
            let mut pre: Vec<&str> = vec!["--replications", "2", "--steps", &steps_s, "--max-step-size", s];
            if *lj {
                pre.push("-p");
                pre.push("LJ");
            }
            let mut pos = vec![*group];
            pos.extend(shape.iter());
            let out = cli::run(&exe, &format!("c19-{}-{}-{}", ctx.seed, i, j), &pre, &pos, &[("RAYON_NUM_THREADS", "2".to_string())], 300);
            if out.status != Some(0) {
                st.count("cli_runs_that_failed(not a C19 event)");
                continue;
            }
            let js = match out.json.as_ref().and_then(|t| crate::oracle::xjson::parse(t).ok()) {
                Some(j) => j,
                None => continue,
            };
            // the starting structure, as the library builds it for this request
            let start = (|| -> Option<Value> {
                let wg = lib_group(group).ok()?;
                let spec = match shape[0] {
                    "polygon" => ShapeSpec::Polygon { sides: shape[2].parse().ok()? },
                    "circle" => ShapeSpec::Circle,
                    _ => ShapeSpec::Trimer { radius: 0.637556, angle: 120., distance: 1. },
                };
                if *lj {
                    serde_json::to_value(&PotentialState::from_group(spec.lj()?, &wg).ok()?).ok()
                } else if let Some(l) = spec.line() {
                    serde_json::to_value(&PackedState::from_group(l, &wg).ok()?).ok()
                } else {
                    serde_json::to_value(&PackedState::from_group(spec.mol()?, &wg).ok()?).ok()
                }
            })();
            let start = match start {
                Some(s) => s,
                None => continue,
            };
            let sval: f64 = s.parse().unwrap_or(0.);
            // proposals of the three stages: 1000 + steps + steps (at most)
            let n = (1000 + 2 * steps + 10) as f64;
            st.nontrivial(hash_str(&format!("{}{:?}{}", group, shape, s)));
            st.count("cli_structures_checked_against_their_start");
            for (path, range) in [(vec!["cell", "length"], None), (vec!["cell", "ratio"], Some(1.)), (vec!["cell", "angle"], Some(PI / 3.)), (vec!["occupied_sites", "0", "x"], Some(1.)), (vec!["occupied_sites", "0", "y"], Some(1.)), (vec!["occupied_sites", "0", "angle"], Some(2. * PI))].iter() {
                let a = crate::oracle::xjson::get_f64(&start, path);
                let b = crate::oracle::xjson::get_f64(&js, path);
                if let (Some(a), Some(b)) = (a, b) {
                    let r = range.unwrap_or(a);
                    let bound = n * sval * r / 2. * 1.001;
                    if !((b - a).abs() <= bound) {
                        st.violation(Violation {
                            kind: "c19.cli".into(),
                            signature: "cli:structure-further-from-its-start-than-the-steps-allow".into(),
                            case: json!({"cli": true}),
                            detail: json!({"argv": out.argv, "parameter": path, "start": a, "written": b, "allowed_distance": bound, "max_step_size": s}),
                        });
                        break;
                    }
                }
            }
        }
    }
}

pub fn run(ctx: &Ctx) {
    ctx.set_rule("every proposal of optimise_state is measured against every possible current state (trace monitor): its single changed parameter may move by at most max_step_size x half the parameter's range (ranges: the chosen bounds of scripted states; for real hard/LJ states the ranges declared by the property at stage start). Rejection histories are forced by scripts (0/50/75/99/100% rejection per loop, reject runs, alternation, undefined scores), 1..50 inner loops and loops of 1-4 proposals (the step adaptation acts between loops), steps 1e-8..1, k = 1..24 parameters, all temperatures. Plus freeze-and-release runs on a lean state (no trace monitor, moves measured against the last accepted vector): every loop rejected for as many loops as it takes a step that shrinks by inner/(inner+1) per rejected loop to fall by 2-8 decades, then accepting loops, then both again - loops of 1..300 proposals, and loops of more than 10^4 proposals (about 1e9 proposals per run); the same with a convergence threshold set and the run kept just short of it (1-5 stalled loops, then one improvement, again and again). Plus the real binary: with --max-step-size 0, 1e-9, 1e-6 the written structure may be no further from the group's starting structure than the proposals of its three stages allow (bit-identical for 0). Non-trivial = runs with >= 3 inner loops; distinct by case");
    let n_s = ctx.tier.pick(70u64, 3_500u64);
    let n_r = ctx.tier.pick(6u64, 250u64);
    let prev = std::panic::take_hook();
    std::panic::set_hook(Box::new(|_| {}));
    let tier = ctx.tier;
    par_shards(ctx, 19, 64, |i, rng, st| {
        // freeze-and-release runs: many short ones (loops of 1..300 proposals, 2-8 decades of
        // shrinking), and runs whose loops are longer than any internal floor of the step
        // is small (1e9 proposals and more; one in quick, one per core in thorough)
        for _ in 0..tier.pick(3u64, 40u64) {
            let inner = [1u64, 2, 3, 10, 50, 300][rng.gen_range(0, 6)];
            check(&freeze_case(inner, rng.gen_range(2., 8.), rng.gen()), st);
        }
        for _ in 0..tier.pick(2u64, 20u64) {
            let inner = [1u64, 2, 3, 10, 50, 300][rng.gen_range(0, 6)];
            check(&stalled_freeze_case(inner, rng.gen_range(2., 8.), rng.gen_range(1, 6), rng.gen()), st);
        }
        let long_stalled = match tier {
            Tier::Quick => i == 1,
            Tier::Thorough => i >= 16 && i < 24,
        };
        if long_stalled {
            let inner = match tier {
                Tier::Quick => rng.gen_range(10_050, 10_400),
                Tier::Thorough => rng.gen_range(10_050, 16_000),
            };
            check(&stalled_freeze_case(inner, 4.02, 5, rng.gen()), st);
        }
        let long = match tier {
            Tier::Quick => i == 0,
            Tier::Thorough => i < 16,
        };
        if long {
            let inner = match tier {
                Tier::Quick => rng.gen_range(10_050, 10_400),
                Tier::Thorough => rng.gen_range(10_050, 22_000),
            };
            check(&freeze_case(inner, 4.02, rng.gen()), st);
        }
        for _ in 0..n_s {
            check(&gen_case(rng, false), st);
        }
        for _ in 0..n_r {
            check(&gen_case(rng, true), st);
        }
    });
    std::panic::set_hook(prev);
    let mut st = Stats::new();
    cli_leg(ctx, &mut st);
    ctx.merge(st);
    ctx.set_min_nontrivial(200);
}

pub fn replay(ctx: &Ctx, case: &Value) {
    let prev = std::panic::take_hook();
    std::panic::set_hook(Box::new(|_| {}));
    let mut st = Stats::new();
    if case.get("cli").is_some() {
        cli_leg(ctx, &mut st);
    } else if let Ok(c) = serde_json::from_value::<Case>(case.clone()) {
        check(&c, &mut st);
    }
    std::panic::set_hook(prev);
    ctx.merge(st);
}
