//! C11 - output is faithful: JSON round-trips and the SVG shows the same structure.
use std::f64::consts::PI;

use packing::traits::{State, ToSVG};
use packing::{BuildOptimiser, LJShape2, LineShape, MolecularShape2, PackedState, PotentialState};
use rand::Rng;
use serde::{Deserialize, Serialize};
use serde_json::{json, Value};

use crate::common::*;
use crate::libx::{self, build_packed, build_potential, lattice_of, to_affine, HardGeom, Params, ShapeSpec};
use crate::observe::cli;
use crate::oracle::geom::{Affine, OShape};
use crate::oracle::groups;
use crate::oracle::lattice::Lattice;

#[derive(Clone, Debug, Serialize, Deserialize)]
pub struct Case {
    pub group: String,
    pub shape: ShapeSpec,
    pub lj: bool,
    pub params: Params,
    /// steps of optimisation applied before the check (0 = as constructed)
    pub optimise: u64,
    pub seed: u64,
    pub check_svg: bool,
}

fn viol(site: &str, what: &str, c: &Value, detail: Value) -> Violation {
    Violation { kind: "c11.state".into(), signature: format!("{}:{}", site, what), case: c.clone(), detail }
}

/// everything the SVG check needs from a state
pub struct SvgView {
    pub svg: String,
    pub placements: Vec<Affine>,
    pub lattice: Lattice,
    pub shape: OShape,
}

pub fn parse_uses(svg: &str, href: &str) -> Vec<[f64; 6]> {
    let mut out = vec![];
    for el in svg.split('<').filter(|e| e.starts_with("use ")) {
        if !el.contains(&format!("href=\"{}\"", href)) {
            continue;
        }
        if let Some(t) = el.split("transform=\"matrix(").nth(1) {
            let inner = t.split(')').next().unwrap_or("");
            let nums: Vec<f64> = inner.split(|c: char| c == ' ' || c == ',').filter(|s| !s.is_empty()).filter_map(|s| s.parse::<f64>().ok()).collect();
            if nums.len() == 6 {
                out.push([nums[0], nums[1], nums[2], nums[3], nums[4], nums[5]]);
            } else {
                out.push([f64::NAN; 6]);
            }
        }
    }
    out
}

fn mol_geometry(svg: &str) -> Option<String> {
    let start = svg.find("<g id=\"mol\">")?;
    let rest = &svg[start..];
    let end = rest.find("</g>")?;
    Some(rest[..end].to_string())
}

fn attr(el: &str, name: &str) -> Option<f64> {
    el.split(&format!("{}=\"", name)).nth(1)?.split('"').next()?.parse().ok()
}

pub fn check_svg(v: &SvgView, case: &Value, st: &mut Stats) -> bool {
    let uses = parse_uses(&v.svg, "#mol");
    let n = v.placements.len();
    st.add("svg_use_elements_compared", uses.len() as u64);
    if uses.len() != 9 * n {
        st.violation(viol("to_svg", "wrong-number-of-placed-shapes", case, json!({"use_elements": uses.len(), "expected": 9 * n})));
        return false;
    }
    let (va, vb) = (v.lattice.va(), v.lattice.vb());
    // (relative to the size of the lattice: a structure in metres is as exact as one in sigma)
    let scale = v.lattice.a.abs() + v.lattice.b.abs();
    let mut used = vec![false; uses.len()];
    for p in v.placements.iter() {
        for nn in -1..=1i64 {
            for mm in -1..=1i64 {
                let t = [p.t[0] + nn as f64 * va[0] + mm as f64 * vb[0], p.t[1] + nn as f64 * va[1] + mm as f64 * vb[1]];
                // SVG matrix(a b c d e f): x' = a x + c y + e ; y' = b x + d y + f
                let hit = uses.iter().enumerate().find(|(i, u)| {
                    !used[*i]
                        && u[0].to_bits() == p.m[0][0].to_bits()
                        && u[1].to_bits() == p.m[1][0].to_bits()
                        && u[2].to_bits() == p.m[0][1].to_bits()
                        && u[3].to_bits() == p.m[1][1].to_bits()
                        && (u[4] - t[0]).abs() <= 1e-12 * scale
                        && (u[5] - t[1]).abs() <= 1e-12 * scale
                });
                match hit {
                    Some((i, _)) => used[i] = true,
                    None => {
                        st.violation(viol(
                            "to_svg",
                            "placement-or-image-missing-or-wrong",
                            case,
                            json!({"expected_matrix(a b c d e f)": [p.m[0][0], p.m[1][0], p.m[0][1], p.m[1][1], t[0], t[1]], "image": [nn, mm],
                                   "use_elements": uses.iter().take(18).collect::<Vec<_>>() }),
                        ));
                        return false;
                    }
                }
            }
        }
    }
    // the defined shape is the state's shape
    let mol = match mol_geometry(&v.svg) {
        Some(m) => m,
        None => {
            st.violation(viol("to_svg", "no-mol-definition", case, json!({})));
            return false;
        }
    };
    match &v.shape {
        OShape::Discs(d) => {
            let circles: Vec<&str> = mol.split('<').filter(|e| e.starts_with("circle")).collect();
            let ok = circles.len() == d.len()
                && circles.iter().zip(d.iter()).all(|(el, (c, r))| attr(el, "cx") == Some(c[0]) && attr(el, "cy") == Some(c[1]) && attr(el, "r") == Some(*r));
            if !ok {
                st.violation(viol("to_svg", "mol-geometry-is-not-the-shape", case, json!({"svg": mol, "shape": format!("{:?}", d)})));
                return false;
            }
        }
        OShape::Poly(vs) => {
            let d = mol.split(" d=\"").nth(1).and_then(|s| s.split('"').next()).unwrap_or("");
            let nums: Vec<f64> = d.split(|c: char| !(c.is_ascii_digit() || c == '.' || c == '-' || c == 'e' || c == 'E')).filter(|s| !s.is_empty()).filter_map(|s| s.parse().ok()).collect();
            // move_to(start) then one line_to per edge end: vertices 0,1,..,n-1,0
            let mut ok = nums.len() == 2 * (vs.len() + 1);
            if ok {
                for (i, p) in vs.iter().chain(std::iter::once(&vs[0])).enumerate() {
                    // path data is written in single precision
                    if (nums[2 * i] - p[0]).abs() > 2e-6 * (1. + p[0].abs()) || (nums[2 * i + 1] - p[1]).abs() > 2e-6 * (1. + p[1].abs()) {
                        ok = false;
                    }
                }
            }
            if !ok {
                st.violation(viol("to_svg", "mol-geometry-is-not-the-shape", case, json!({"path": d, "vertices": vs})));
                return false;
            }
        }
    }
    true
}

macro_rules! roundtrip {
    ($state:expr, $ty:ty, $case:expr, $st:expr, $svg:expr, $shape:expr) => {{
        let s: &$ty = $state;
        let t1 = match serde_json::to_string(s) {
            Ok(t) => t,
            Err(e) => {
                $st.violation(viol("serde", "cannot-serialise", $case, json!({"error": e.to_string()})));
                return;
            }
        };
        let s2: $ty = match serde_json::from_str(&t1) {
            Ok(x) => x,
            Err(e) => {
                $st.violation(viol("serde", "cannot-read-back-own-output", $case, json!({"error": e.to_string(), "json": t1})));
                return;
            }
        };
        let t2 = serde_json::to_string(&s2).unwrap_or_default();
        if t1 != t2 {
            // find the first differing number for the report
            let pos = t1.bytes().zip(t2.bytes()).position(|(a, b)| a != b).unwrap_or(0);
            let lo = pos.saturating_sub(30);
            $st.violation(viol("serde", "re-serialisation-differs", $case, json!({"first": &t1[lo..(pos + 30).min(t1.len())], "second": &t2[lo..(pos + 30).min(t2.len())]})));
            return;
        }
        let (a, b) = (s.score(), s2.score());
        if a.map(f64::to_bits) != b.map(f64::to_bits) {
            $st.violation(viol("serde", "score-changes-through-json", $case, json!({"before": a, "after": b})));
            return;
        }
        let p1: Vec<Affine> = s.cartesian_positions().map(|t| to_affine(&t)).collect();
        let p2: Vec<Affine> = s2.cartesian_positions().map(|t| to_affine(&t)).collect();
        let bits = |v: &Vec<Affine>| -> Vec<u64> { v.iter().flat_map(|a| vec![a.m[0][0], a.m[0][1], a.m[1][0], a.m[1][1], a.t[0], a.t[1]]).map(f64::to_bits).collect() };
        if bits(&p1) != bits(&p2) {
            $st.violation(viol("serde", "placements-change-through-json", $case, json!({"before": p1.iter().map(|a| a.t).collect::<Vec<_>>(), "after": p2.iter().map(|a| a.t).collect::<Vec<_>>() })));
            return;
        }
        if $svg {
            let v = SvgView { svg: s.as_svg().to_string(), placements: p1, lattice: lattice_of(&s.cell), shape: $shape };
            if !check_svg(&v, $case, $st) {
                return;
            }
            $st.count("svg_documents_checked");
        }
        $st.count("json_round_trips_checked");
    }};
}

fn optimise<T: State>(s: T, steps: u64, seed: u64) -> impl State {
    let mut b = BuildOptimiser::default();
    b.steps(steps).inner_steps((steps / 3).max(1)).kt_start(0.1).kt_ratio(Some(0.2)).max_step_size(0.05).seed(seed);
    b.build().optimise_state(s)
}

pub fn check(c: &Case, st: &mut Stats) {
    st.eval();
    let cv = serde_json::to_value(c).unwrap();
    let short = |x: f64| format!("{}", x).len() <= 6;
    let p = &c.params;
    let long = [p.len, p.ratio, p.angle, p.x, p.y, p.phi].iter().filter(|x| !short(**x)).count();
    if long >= 3 {
        st.nontrivial(hash64(&[hash_str(&c.group), hash_str(&serde_json::to_string(&c.shape).unwrap_or_default()), c.lj as u64, hash64(&f64_bits_vec(&[p.len, p.ratio, p.angle, p.x, p.y, p.phi])), c.optimise, c.seed]));
    }
    if c.lj {
        let shape = match c.shape.lj() {
            Some(s) => s,
            None => return,
        };
        let o = OShape::Discs(shape.items.iter().map(|a| ([a.position.x, a.position.y], a.sigma / 2.)).collect());
        let s0 = match build_potential(shape, &c.group, p) {
            Ok(s) => s,
            Err(e) => {
                st.inconclusive.push(e);
                return;
            }
        };
        let s = if c.optimise > 0 && s0.score().map(|x| x.is_finite()) == Some(true) {
            match std::panic::catch_unwind(std::panic::AssertUnwindSafe(|| serde_json::to_value(&optimise(s0.clone(), c.optimise, c.seed)))) {
                Ok(Ok(j)) => serde_json::from_value::<PotentialState<LJShape2>>(j).unwrap_or(s0),
                _ => s0,
            }
        } else {
            s0
        };
        roundtrip!(&s, PotentialState<LJShape2>, &cv, st, c.check_svg, o.clone());
    } else if let Some(shape) = c.shape.line() {
        let o = shape.oshape();
        let s0 = match build_packed(shape, &c.group, p) {
            Ok(s) => s,
            Err(e) => {
                st.inconclusive.push(e);
                return;
            }
        };
        let s = if c.optimise > 0 && s0.score().is_some() {
            match std::panic::catch_unwind(std::panic::AssertUnwindSafe(|| serde_json::to_value(&optimise(s0.clone(), c.optimise, c.seed)))) {
                Ok(Ok(j)) => serde_json::from_value::<PackedState<LineShape>>(j).unwrap_or(s0),
                _ => s0,
            }
        } else {
            s0
        };
        roundtrip!(&s, PackedState<LineShape>, &cv, st, c.check_svg, o.clone());
    } else if let Some(shape) = c.shape.mol() {
        let o = shape.oshape();
        let s0 = match build_packed(shape, &c.group, p) {
            Ok(s) => s,
            Err(e) => {
                st.inconclusive.push(e);
                return;
            }
        };
        let s = if c.optimise > 0 && s0.score().is_some() {
            match std::panic::catch_unwind(std::panic::AssertUnwindSafe(|| serde_json::to_value(&optimise(s0.clone(), c.optimise, c.seed)))) {
                Ok(Ok(j)) => serde_json::from_value::<PackedState<MolecularShape2>>(j).unwrap_or(s0),
                _ => s0,
            }
        } else {
            s0
        };
        roundtrip!(&s, PackedState<MolecularShape2>, &cv, st, c.check_svg, o.clone());
    }
    st.sample(|| json!({ "case": c }));
}

/// States with many occupied sites (PackedState/PotentialState::initialise): 2..60 sites of the
/// group's general position, every one of them and all its images must come back from the JSON
/// and be in the drawing.
pub fn check_many_sites(seed: u64, st: &mut Stats) {
    use packing::wallpaper::{Wallpaper, WyckoffSite};
    use packing::CrystalFamily;
    st.eval();
    let mut rng = crate::common::rng_for(seed, 1111);
    let group = groups::NAMES[rng.gen_range(0, 7)];
    let wg = match libx::lib_group(group) {
        Ok(g) => g,
        Err(_) => return,
    };
    let general = match WyckoffSite::new(&wg) {
        Ok(s) => s,
        Err(_) => return,
    };
    let nsites = [2usize, 3, 5, 16, 26, 27, 28, 33, 60][rng.gen_range(0, 9)];
    let sites = vec![general; nsites];
    let family = if libx::is_oblique(group) { CrystalFamily::Monoclinic } else { CrystalFamily::Orthorhombic };
    let cv = json!({ "many_sites_seed": seed });
    let mut scale_len = 1f64;
    st.nontrivial(hash64(&[1111, seed]));
    st.count(&format!("states_with_many_sites[{}]", if nsites > 26 { "> 26" } else { "2..26" }));
    macro_rules! place {
        ($state:expr, $ty:ty) => {{
            let mut v = match serde_json::to_value(&$state) {
                Ok(v) => v,
                Err(_) => return,
            };
            v["cell"]["length"] = json!(scale_len * rng.gen_range(3., 6.) * (nsites as f64 * 4.).sqrt());
            for i in 0..nsites {
                v["occupied_sites"][i]["x"] = json!(rng.gen_range(-0.5, 0.5));
                v["occupied_sites"][i]["y"] = json!(rng.gen_range(-0.5, 0.5));
                v["occupied_sites"][i]["angle"] = json!(if rng.gen_range(0, 6) == 0 { [0., PI / 2., PI, 3. * PI / 2.][rng.gen_range(0, 4)] } else { rng.gen_range(0., 2. * PI) });
            }
            match serde_json::from_value::<$ty>(v) {
                Ok(s) => s,
                Err(_) => return,
            }
        }};
    }
    if rng.gen_bool(0.3) {
        let shape = LJShape2::circle();
        let o = OShape::Discs(shape.items.iter().map(|a| ([a.position.x, a.position.y], a.sigma / 2.)).collect());
        let s = place!(PotentialState::initialise(shape, Wallpaper { name: group.to_string(), family }, &sites), PotentialState<LJShape2>);
        roundtrip!(&s, PotentialState<LJShape2>, &cv, st, true, o.clone());
    } else if let Ok(shape) = {
        // in units of the shape's size, or in metres (an atom is 1e-10 across)
        let unit = [1., 1., 3e-11, 1e-7, 1e4][rng.gen_range(0, 5)];
        scale_len = unit;
        LineShape::from_radial("polygon", vec![unit; rng.gen_range(3, 8)])
    } {
        let o = shape.oshape();
        let s = place!(PackedState::initialise(shape, Wallpaper { name: group.to_string(), family }, &sites), PackedState<LineShape>);
        roundtrip!(&s, PackedState<LineShape>, &cv, st, true, o.clone());
    }
}

pub fn gen_case<R: Rng>(rng: &mut R, svg: bool) -> Case {
    let lj = rng.gen_bool(0.4);
    let shape = if lj {
        if rng.gen_bool(0.3) {
            ShapeSpec::Circle
        } else {
            libx::gen::trimer(rng)
        }
    } else {
        libx::gen::hard_shape(rng)
    };
    let edge = |rng: &mut R, lo: f64, hi: f64| match rng.gen_range(0, 8) {
        0 => lo,
        1 => hi,
        2 => f64::from_bits(lo.to_bits() + 1),
        3 => f64::from_bits(hi.to_bits() - 1),
        _ => rng.gen_range(lo, hi),
    };
    let params = Params {
        len: 10f64.powf(rng.gen_range(-1.5, 2.)),
        ratio: edge(rng, 0.1, 1.),
        angle: edge(rng, PI / 6., PI / 2.),
        x: edge(rng, -0.5, 0.5),
        y: edge(rng, -0.5, 0.5),
        phi: edge(rng, 0.0000001, 2. * PI),
    };
    let optimise = if rng.gen_bool(0.05) { rng.gen_range(20, 200) } else { 0 };
    let mut p = params;
    // values as data delivers them: f32-representable, dyadic, short decimals, integers, 2^n
    let mut snap = |v: &mut f64, lo: f64, hi: f64| {
        if rng.gen_range(0, 3) == 0 {
            let s = snap_float(rng, *v);
            if s >= lo && s <= hi {
                *v = s;
            }
        }
    };
    snap(&mut p.len, 0.01, 1e9);
    snap(&mut p.ratio, 0.1, 1.);
    snap(&mut p.angle, PI / 6., PI / 2.);
    snap(&mut p.x, -0.5, 0.5);
    snap(&mut p.y, -0.5, 0.5);
    snap(&mut p.phi, 0., 2. * PI);
    if rng.gen_range(0, 40) == 0 {
        // very large cells, powers of two among them
        p.len = if rng.gen_bool(0.5) { 2f64.powi(rng.gen_range(10, 40)) } else { 10f64.powf(rng.gen_range(3., 9.)) };
    }
    if optimise > 0 {
        let copies = groups::group("p2mg").unwrap().ops.len() as f64;
        p.len = 6. * copies;
        p.ratio = 1.;
        p.angle = PI / 2.;
    }
    Case { group: groups::NAMES[rng.gen_range(0, 7)].to_string(), shape, lj, params: p, optimise, seed: rng.gen::<u32>() as u64, check_svg: svg }
}

/// files written by the real binary
fn check_cli_files(ctx: &Ctx, st: &mut Stats) {
    let exe = match ctx.args.cli.clone() {
        Some(e) => e,
        None => return,
    };
    let runs: Vec<(Vec<&str>, Vec<&str>, u8)> = vec![
        (vec!["--replications", "3", "--steps", "800"], vec!["p2", "polygon", "--sides", "5"], 0),
        (vec!["--replications", "3", "--steps", "800"], vec!["p2mg", "trimer"], 1),
        (vec!["--replications", "2", "--steps", "600", "-p", "LJ"], vec!["p1g1", "trimer"], 2),
        (vec!["--replications", "2", "--steps", "600", "-p", "LJ"], vec!["p2gg", "circle"], 2),
        (vec!["--replications", "3", "--steps", "800"], vec!["p1", "circle"], 1),
        (vec!["--replications", "2", "--steps", "500"], vec!["p2mm", "polygon", "--sides", "3"], 0),
        (vec!["--replications", "2", "--steps", "500"], vec!["p1m1", "polygon", "--sides", "7"], 0),
    ];
    for (i, (pre, pos, kind)) in runs.iter().enumerate() {
        st.eval();
        let out = cli::run(&exe, &format!("c11-{}-{}", ctx.seed, i), pre, pos, &[("RAYON_NUM_THREADS", "4".to_string())], 300);
        let cv = json!({"argv": out.argv});
        if out.status != Some(0) {
            st.count("cli_runs_that_failed(not a C11 event)");
            continue;
        }
        let (txt, svg) = match (out.json.clone(), out.svg.clone()) {
            (Some(a), Some(b)) => (a, b),
            _ => continue,
        };
        st.nontrivial(hash_str(&format!("{:?}{:?}", pre, pos)));
        macro_rules! file_check {
            ($ty:ty, $shape:expr) => {{
                match serde_json::from_str::<$ty>(&txt) {
                    Ok(s) => {
                        let again = serde_json::to_string(&s).unwrap_or_default();
                        if again != txt {
                            let pos = txt.bytes().zip(again.bytes()).position(|(a, b)| a != b).unwrap_or(0);
                            let lo = pos.saturating_sub(30);
                            st.violation(viol("cli-json", "file-does-not-re-serialise-to-itself", &cv, json!({"file": &txt[lo..(pos + 30).min(txt.len())], "re-serialised": &again[lo..(pos + 30).min(again.len())]})));
                            continue;
                        }
                        // logged score = score of the file
                        if let (Some(l), Some(sc)) = (out.final_score_logged().and_then(|x| x.parse::<f64>().ok()), s.score()) {
                            if l.to_bits() != sc.to_bits() {
                                st.violation(viol("cli-json", "file-does-not-reproduce-the-logged-score", &cv, json!({"logged": l, "rescored": sc})));
                                continue;
                            }
                        }
                        let shape = $shape(&s);
                        let v = SvgView { svg: svg.clone(), placements: s.cartesian_positions().map(|t| to_affine(&t)).collect(), lattice: lattice_of(&s.cell), shape };
                        if check_svg(&v, &cv, st) {
                            st.count("cli_file_pairs_checked");
                        }
                    }
                    Err(e) => st.violation(viol("cli-json", "file-not-readable", &cv, json!({"error": e.to_string()}))),
                }
            }};
        }
        match kind {
            0 => file_check!(PackedState<LineShape>, |s: &PackedState<LineShape>| s.shape.oshape()),
            1 => file_check!(PackedState<MolecularShape2>, |s: &PackedState<MolecularShape2>| s.shape.oshape()),
            _ => file_check!(PotentialState<LJShape2>, |s: &PotentialState<LJShape2>| OShape::Discs(s.shape.items.iter().map(|a| ([a.position.x, a.position.y], a.sigma / 2.)).collect())),
        }
    }
}

/// Transform2 itself, and states of user-defined groups whose operations have non-symmetric
/// linear parts (p4, p3, p6 through the public WallpaperGroup struct), through JSON text.
fn check_transforms_and_custom_groups<R: Rng>(rng: &mut R, st: &mut Stats) {
    use packing::{CrystalFamily, Transform2, WallpaperGroup};
    // 1. a bare transform
    st.eval();
    let t = Transform2::new(rng.gen_range(-7., 7.), (rng.gen_range(-3., 3.), rng.gen_range(-3., 3.)));
    let txt = serde_json::to_string(&t).unwrap_or_default();
    match serde_json::from_str::<Transform2>(&txt) {
        Ok(t2) => {
            let (a, b) = (to_affine(&t), to_affine(&t2));
            let bits = |x: &Affine| f64_bits_vec(&[x.m[0][0], x.m[0][1], x.m[1][0], x.m[1][1], x.t[0], x.t[1]]);
            if bits(&a) != bits(&b) || serde_json::to_string(&t2).unwrap_or_default() != txt {
                st.violation(viol("serde", "transform-changes-through-json", &json!({"transform_json": txt}), json!({"before": {"m": a.m, "t": a.t}, "after": {"m": b.m, "t": b.t}})));
                return;
            }
            st.nontrivial(hash_str(&txt));
        }
        Err(e) => {
            st.violation(viol("serde", "cannot-read-back-own-output", &json!({"transform_json": txt}), json!({"error": e.to_string()})));
            return;
        }
    }
    // 2. states of p4 / p3 / p6
    let (name, family, ops): (&str, CrystalFamily, Vec<&str>) = match rng.gen_range(0, 3) {
        0 => ("p4", CrystalFamily::Tetragonal, vec!["x,y", "-y,x", "-x,-y", "y,-x"]),
        1 => ("p3", CrystalFamily::Hexagonal, vec!["x,y", "-y,x-y", "-x+y,-x"]),
        _ => ("p6", CrystalFamily::Hexagonal, vec!["x,y", "-y,x-y", "-x+y,-x", "-x,-y", "y,-x+y", "x-y,x"]),
    };
    let wg = WallpaperGroup { name, family, wyckoff_str: ops };
    st.eval();
    let cv = json!({"custom_group": name});
    if rng.gen_bool(0.5) {
        if let Ok(mut s) = PackedState::from_group(LineShape::polygon(rng.gen_range(3, 8)).unwrap(), &wg) {
            {
                use packing::traits::Basis;
                let mut b = s.generate_basis();
                for h in b.iter_mut() {
                    let v = h.get_value();
                    h.set_value(v * rng.gen_range(0.5, 1.) + rng.gen_range(0., 0.3));
                }
            }
            let _ = &mut s;
            let o = s.shape.oshape();
            roundtrip!(&s, PackedState<LineShape>, &cv, st, false, o.clone());
        }
    } else if let Ok(s) = PotentialState::from_group(LJShape2::from_trimer(0.637556, 120., 1.), &wg) {
        {
            use packing::traits::Basis;
            let mut b = s.generate_basis();
            for h in b.iter_mut() {
                let v = h.get_value();
                h.set_value(v * rng.gen_range(0.5, 1.) + rng.gen_range(0., 0.3));
            }
        }
        let o = OShape::Discs(vec![]);
        roundtrip!(&s, PotentialState<LJShape2>, &cv, st, false, o.clone());
    }
}

pub fn run(ctx: &Ctx) {
    ctx.set_rule("states of both kinds, all groups and shapes with random full-precision parameters (plus the exact ends of each range and one ulp inside them), a share of them optimised first, are serialised with serde_json::to_string, read back with from_str and serialised again: the two texts must be identical and score and Cartesian placements bit-identical; the SVG document is parsed: its <use href=#mol> transforms must be exactly the placements and their 8 nearest lattice images, each once, in matrix(a b c d e f) column order (linear part bit-exact, translation within 1e-12 of the lattice size of the independent lattice; structures in units from 3e-11 to 1e4), and #mol must be the shape; the same for states with 2..60 occupied sites (initialise). Bare Transform2 values with arbitrary rotations, and states of user-defined p4/p3/p6 groups (non-symmetric linear parts), go through the same text round trip. The JSON/SVG files written by the real binary get the same treatment (file re-serialises to itself byte for byte, reproduces the logged score bit for bit). Non-trivial = states with >= 3 parameters that are not short decimals; distinct by parameter bits");
    let n = ctx.tier.pick(3_000u64, 250_000u64);
    let nsvg = ctx.tier.pick(60u64, 3_000u64);
    let prev = std::panic::take_hook();
    std::panic::set_hook(Box::new(|_| {}));
    par_shards(ctx, 11, 64, |_, rng, st| {
        for _ in 0..n {
            check(&gen_case(rng, false), st);
        }
        for _ in 0..nsvg {
            check(&gen_case(rng, true), st);
        }
        for _ in 0..n / 20 {
            check_transforms_and_custom_groups(rng, st);
        }
        for _ in 0..nsvg / 3 {
            check_many_sites(rng.gen(), st);
        }
    });
    std::panic::set_hook(prev);
    let mut st = Stats::new();
    check_cli_files(ctx, &mut st);
    ctx.merge(st);
    ctx.set_min_nontrivial(5_000);
}

pub fn replay(ctx: &Ctx, case: &Value) {
    let mut st = Stats::new();
    if let Some(seed) = case["many_sites_seed"].as_u64() {
        check_many_sites(seed, &mut st);
    } else if let Ok(c) = serde_json::from_value::<Case>(case.clone()) {
        check(&c, &mut st);
    } else {
        check_cli_files(ctx, &mut st);
    }
    ctx.merge(st);
}
