//! C05 - zero-temperature optimisation never lowers the score.
use packing::traits::State;
use packing::{PackedState, PotentialState};
use rand::Rng;
use serde::{Deserialize, Serialize};
use serde_json::{json, Value};

use super::mc::{self, OptCfg, RunReport, ScriptedCase};
use crate::common::*;
use crate::libx::{self, lib_group, ShapeSpec};
use crate::observe::scripted::Script;
use crate::oracle::groups;

#[derive(Clone, Debug, Serialize, Deserialize)]
pub enum Case {
    Scripted(ScriptedCase),
    Real { group: String, shape: ShapeSpec, lj: bool, cfg: OptCfg, via_api: bool },
    /// a quench of more loops than a 31- or 32-bit counter holds (inner_steps 1-3), every
    /// proposal worse than the start: whatever the loop count, nothing may be accepted
    Long { loops: u64, inner: u64, kt_finish: Option<f64>, kt_ratio: Option<f64>, seed: u64 },
}

fn cfg_of(c: &Case) -> &OptCfg {
    match c {
        Case::Long { .. } => unreachable!("long quenches are judged by check_long"),
        Case::Scripted(s) => &s.cfg,
        Case::Real { cfg, .. } => cfg,
    }
}

/// the C05 verdict on one finished run
fn judge(c: &Case, r: &RunReport, direct_scores: Option<(Option<f64>, Option<f64>)>, st: &mut Stats) {
    st.eval();
    let cfg = cfg_of(c);
    let case = || serde_json::to_value(c).unwrap();
    if let Some(p) = &r.panicked {
        st.count("runs_that_panicked(not a C05 event; C20 decides)");
        st.count(&format!("panic[{}]", p.chars().take(90).collect::<String>()));
        return;
    }
    let mut worse_resolved = 0u64;
    let mut last_accepted: Option<f64> = mc::initial_score(r);
    let mut sorted = r.resolved.clone();
    sorted.sort_by_key(|d| d.step);
    for d in sorted.iter() {
        if let Some(n) = d.new {
            if n < d.old {
                worse_resolved += 1;
                if d.accepted {
                    st.violation(Violation {
                        kind: "c05.run".into(),
                        signature: "optimise_state:kt_start=0:accepts-worse".into(),
                        case: case(),
                        detail: json!({"proposal": d.step, "inner_loop": (d.step as u64 - 1) / cfg.effective_inner().max(1), "old_score": d.old, "new_score": n}),
                    });
                    return;
                }
            }
            if d.accepted {
                if let Some(prev) = last_accepted {
                    if n < prev && n < d.old {
                        // covered above; kept for the monotone-sequence clause
                    }
                }
                last_accepted = Some(n);
            }
        }
    }
    st.add("resolved_decisions", r.resolved.len() as u64);
    st.add("worse_proposals_resolved", worse_resolved);
    let init = mc::initial_score(r);
    let fin = mc::believed_final_score(r);
    if let (Some(i), Some(f)) = (init, fin) {
        if f < i {
            st.violation(Violation {
                kind: "c05.run".into(),
                signature: "optimise_state:kt_start=0:returns-lower-score".into(),
                case: case(),
                detail: json!({"input_score": i, "returned_score": f, "proposals": r.monitor.calls}),
            });
            return;
        }
    }
    if let Some((Some(i), Some(f))) = direct_scores {
        if f < i {
            st.violation(Violation {
                kind: "c05.run".into(),
                signature: "optimise_state:kt_start=0:returns-lower-score".into(),
                case: case(),
                detail: json!({"input_score": i, "returned_score_rescored": f}),
            });
            return;
        }
    }
    let loops = cfg.loops();
    if loops >= 2 && worse_resolved >= 1 {
        st.nontrivial(hash64(&[hash_str(&serde_json::to_string(cfg).unwrap_or_default()), matches!(c, Case::Real { .. }) as u64]));
        st.count(if loops >= 10 { "runs_with_10+_inner_loops" } else { "runs_with_2-9_inner_loops" });
    }
    st.count(&format!("kt_finish[{:?}]", cfg.kt_finish));
    st.count(&format!("kt_ratio[{:?}]", cfg.kt_ratio));
    st.sample(|| json!({"case": c, "input_score": init, "returned_score": fin, "calls": r.monitor.calls, "resolved": r.resolved.len(), "worse_resolved_all_rejected": worse_resolved}));
}

fn check_long(c: &Case, st: &mut Stats) {
    let (loops, inner, kt_finish, kt_ratio, seed) = match c {
        Case::Long { loops, inner, kt_finish, kt_ratio, seed } => (*loops, *inner, *kt_finish, *kt_ratio, *seed),
        _ => return,
    };
    st.eval();
    let cfg = OptCfg { steps: loops * inner, inner_steps: inner, kt_start: 0., kt_finish, kt_ratio, max_step_size: 1e-6, seed, convergence: None, builder_history: None };
    let b = match cfg.builder() {
        Ok(b) => b,
        Err(e) => {
            st.inconclusive.push(e);
            return;
        }
    };
    let out = std::panic::catch_unwind(std::panic::AssertUnwindSafe(|| {
        let fin = b.build().optimise_state(super::c07::TailState::new(1.0));
        crate::observe::spy::params_of(&fin).iter().any(|x| *x != 0.)
    }));
    st.add("proposals_in_long_quenches", loops * inner);
    st.nontrivial(hash64(&[loops, inner, seed]));
    st.count(&format!("long_quenches[{} loops]", if loops > (1u64 << 32) { "> 2^32" } else if loops > (1u64 << 31) { "> 2^31" } else { "<= 2^31" }));
    match out {
        Ok(true) => st.violation(Violation {
            kind: "c05.run".into(),
            signature: "optimise_state:zero-temperature:worse-score-accepted".into(),
            case: serde_json::to_value(c).unwrap(),
            detail: json!({"what": "every proposal of this run is worse than the input by 1.0 and kt_start = 0, yet the returned state is not the input", "loops": loops, "inner_steps": inner}),
        }),
        Ok(false) => {}
        Err(_) => st.count("runs_that_panicked(not a C05 event; C20 decides)"),
    }
}

pub fn check(c: &Case, st: &mut Stats) {
    match c {
        Case::Long { .. } => check_long(c, st),
        Case::Scripted(sc) => {
            let r = mc::run_scripted(sc, false);
            judge(c, &r, None, st);
        }
        Case::Real { group, shape, lj, cfg, via_api } => {
            let wg = match lib_group(group) {
                Ok(g) => g,
                Err(e) => {
                    st.inconclusive.push(e);
                    return;
                }
            };
            macro_rules! go {
                ($state:expr, $ty:ty) => {{
                    match $state {
                        Ok(s0) => {
                            let i = s0.score();
                            if i.is_none() || !i.unwrap().is_finite() {
                                st.count("real_initial_state_not_scored(skipped)");
                                return;
                            }
                            let rr = mc::run_real(s0, cfg, None, false, *via_api);
                            let f = rr.result_json.clone().and_then(|j| serde_json::from_value::<$ty>(j).ok()).map(|s| s.score());
                            judge(c, &rr.report, Some((i, f.flatten())), st);
                        }
                        Err(e) => st.inconclusive.push(e.to_string()),
                    }
                }};
            }
            if *lj {
                match shape.lj() {
                    Some(s) => go!(PotentialState::from_group(s, &wg), PotentialState<packing::LJShape2>),
                    None => {}
                }
            } else if let Some(s) = shape.line() {
                go!(PackedState::from_group(s, &wg), PackedState<packing::LineShape>)
            } else if let Some(s) = shape.mol() {
                go!(PackedState::from_group(s, &wg), PackedState<packing::MolecularShape2>)
            }
        }
    }
}

pub fn gen_case<R: Rng>(rng: &mut R, real: bool) -> Case {
    if real {
        let mut cfg = mc::rand_cfg(rng, 0., 6000);
        cfg.max_step_size = 10f64.powf(rng.gen_range(-3., -0.5));
        if rng.gen_bool(0.25) {
            cfg.kt_start = -0.0;
        }
        let lj = rng.gen_bool(0.4);
        let shape = if lj {
            if rng.gen_bool(0.3) {
                ShapeSpec::Circle
            } else {
                ShapeSpec::Trimer { radius: 0.637556, angle: 120., distance: 1. }
            }
        } else {
            libx::gen::hard_shape(rng)
        };
        Case::Real { group: groups::NAMES[rng.gen_range(0, 7)].to_string(), shape, lj, cfg, via_api: rng.gen_bool(0.3) }
    } else {
        let k = rng.gen_range(1, 9);
        let (init, bounds) = mc::rand_bounds(rng, k);
        let script = match rng.gen_range(0, 3) {
            0 => Script::Bowl { centre: bounds.iter().map(|(lo, hi)| lo + (hi - lo) * rng.gen::<f64>()).collect(), wall: if rng.gen_bool(0.5) { Some(bounds[0].0 + 0.7 * (bounds[0].1 - bounds[0].0)) } else { None } },
            1 => Script::Random { p: [0.2, 0.1, 0.5, 0.2], seed: rng.gen(), gap: 1. },
            _ => Script::Random { p: [0.05, 0.05, 0.8, 0.1], seed: rng.gen(), gap: [1e-3, 1e-3, 1e-16, 1e-300, 5e-324][rng.gen_range(0, 5)] },
        };
        let mut cfg = mc::rand_cfg(rng, 0., 20_000);
        // "whatever the other settings are": cooling ratios outside [0,1] (heating, sign
        // changes), extreme finishing temperatures, and thousands of tiny loops
        if rng.gen_bool(0.25) {
            cfg.kt_ratio = Some([-1., -0.5, 1.5, 2., -1e3, 1. - 1e-12][rng.gen_range(0, 6)]);
        }
        if rng.gen_bool(0.15) {
            cfg.kt_finish = Some([1e300, 1e-300, 5e-324][rng.gen_range(0, 3)]);
        }
        if rng.gen_bool(0.25) {
            cfg.inner_steps = rng.gen_range(1, 4);
        }
        if rng.gen_bool(0.25) {
            // zero is zero whatever its sign
            cfg.kt_start = -0.0;
        }
        let mut sc = ScriptedCase { init, bounds, script, cfg, via_api: rng.gen_bool(0.3), aliases: vec![], score_offset: 0. };
        mc::maybe_start_outside(rng, &mut sc, 0.15);
        Case::Scripted(sc)
    }
}

/// The CLI's own pipeline: stages 1 and 3 run at kt_start = 0 with the user's other settings.
/// The hook log gives each replica's score entering every stage and its final score.
fn cli_leg(ctx: &Ctx, st: &mut Stats) {
    use crate::observe::cli;
    use crate::props::c10::parse_hook_log;
    let exe = match ctx.args.cli.clone() {
        Some(e) => e,
        None => return,
    };
    let argvs: Vec<(Vec<&str>, Vec<&str>)> = vec![
        (vec!["--replications", "6", "--steps", "3000", "--inner-steps", "300", "--kt-finish", "0.001"], vec!["p2", "polygon", "--sides", "4"]),
        (vec!["--replications", "6", "--steps", "2000", "--inner-steps", "100"], vec!["p2mg", "trimer"]),
        (vec!["--replications", "4", "--steps", "1500", "--inner-steps", "100", "--kt-finish", "0.01", "-p", "LJ"], vec!["p1g1", "trimer"]),
        (vec!["--replications", "6", "--steps", "2500", "--inner-steps", "250", "--kt-finish", "0.1", "--convergence", "1e-5"], vec!["p2gg", "circle"]),
        (vec!["--replications", "4", "--steps", "2000", "--inner-steps", "50", "--kt-ratio", "0.2", "-p", "LJ"], vec!["p2", "circle"]),
        (vec!["--replications", "6", "--steps", "4000", "--inner-steps", "1000", "--kt-finish", "10"], vec!["p1", "polygon", "--sides", "5"]),
    ];
    for (i, (pre, pos)) in argvs.iter().enumerate() {
        st.eval();
        let out = cli::run(&exe, &format!("c05-{}-{}", ctx.seed, i), pre, pos, &[("RAYON_NUM_THREADS", "4".to_string())], 300);
        if out.status != Some(0) {
            st.count("cli_runs_that_failed(not a C05 event; C20 decides)");
            continue;
        }
        let ev = parse_hook_log(&out.hook_log);
        let case = json!({"Cli": {"pre": pre, "pos": pos}});
        // per thread, events are sequential: stage1 -> stage2 -> stage3 -> done of one replica
        let mut checked = 0;
        for (k, e) in ev.iter().enumerate() {
            if e.kind != "stage" || (e.stage != 1 && e.stage != 3) {
                continue;
            }
            let next = ev[k + 1..].iter().find(|d| d.thread == e.thread);
            if let Some(n) = next {
                let expect_next = if e.stage == 1 { n.kind == "stage" && n.stage == 2 && n.replica == e.replica } else { n.kind == "done" };
                if !expect_next {
                    continue;
                }
                if let (Some(before), Some(after)) = (e.score, n.score) {
                    checked += 1;
                    if after < before {
                        st.violation(Violation {
                            kind: "c05.cli".into(),
                            signature: "cli:zero-temperature-stage-lowers-the-score".into(),
                            case: case.clone(),
                            detail: json!({"replica": e.replica, "stage": e.stage, "score_entering_the_stage": before, "score_leaving_it": after}),
                        });
                        return;
                    }
                }
            }
        }
        st.add("cli_zero_temperature_stages_checked", checked);
        if checked > 0 {
            st.nontrivial(hash_str(&format!("{:?}{:?}", pre, pos)));
        }
    }
}

pub fn run(ctx: &Ctx) {
    ctx.set_rule("optimise_state with kt_start = 0 (+0 and -0) over the configuration space: kt_finish in {unset, 0, 1e-3, 0.1, 10} x kt_ratio in {unset, 0, 0.1, 0.5, 1, and outside [0,1]: -1e3, -1, -0.5, 1.5, 2} x steps 1..20000 (also thousands of 1-3-step loops; and lean quenches in which every proposal is worse, of 2e3-2e5 loops and of more than 2^31 - thorough: 2^32 - one-step loops) x inner_steps (equal, smaller, non-dividing, larger than steps) x convergence {unset, 0, 1e-6, 1} x max_step 1e-4..1 x seeds, built through the CLI's argument parser (the only way to leave kt_finish unset) and through the builder API; plus the real binary's own pipeline (hook log: score entering and leaving stages 1 and 3 of every replica); on scripted states (random better/equal/worse/undefined scores; bowl landscapes with an undefined region) and on real hard and LJ states of all groups wrapped in a Spy. The trace monitor resolves accept/reject decisions from the parameter vectors; event = a resolved acceptance of a worse score, or a returned score below the input score (monitor's belief, and re-scored result for real states). Non-trivial = >= 2 inner loops and >= 1 worse proposal resolved; distinct by configuration");
    let n_s = ctx.tier.pick(60u64, 3_000u64);
    let n_r = ctx.tier.pick(6u64, 250u64);
    let prev = std::panic::take_hook();
    std::panic::set_hook(Box::new(|_| {}));
    let only = ctx.args.extra.get("only").cloned().unwrap_or_default();
    if only == "debug" {
        let mut rng = ctx.rng(77);
        let mut st = Stats::new();
        for i in 0..400 {
            let c = gen_case(&mut rng, false);
            println!("case {} {}", i, serde_json::to_string(&c).unwrap());
            let t = std::time::Instant::now();
            check(&c, &mut st);
            let e = t.elapsed().as_secs_f64();
            if e > 0.2 {
                println!("slow case {} {:.2}s: {}", i, e, serde_json::to_string(&c).unwrap());
            }
        }
        ctx.merge(st);
        return;
    }
    let (n_s, n_r) = (if only == "real" { 0 } else { n_s }, if only == "scripted" { 0 } else { n_r });
    let tier = ctx.tier;
    par_shards(ctx, 5, 64, |i, rng, st| {
        // long quenches: short-loop runs by the thousand loops, and - one per quick run, one per
        // core in the thorough tier - more loops than a 31-bit (thorough: also 32-bit) counter holds
        if only.is_empty() {
            let ratios = [None, Some(0.1), Some(0.5), Some(-1.), Some(0.999)];
            let fins = [None, Some(1e-3), Some(10.)];
            check(&Case::Long { loops: rng.gen_range(2_000, 200_000), inner: rng.gen_range(1, 4), kt_finish: fins[rng.gen_range(0, 3)], kt_ratio: ratios[rng.gen_range(0, 5)], seed: rng.gen::<u32>() as u64 }, st);
            let long = match tier {
                Tier::Quick => i == 1,
                Tier::Thorough => i < 16,
            };
            if long {
                let loops = match tier {
                    Tier::Thorough if i % 4 == 0 => (1u64 << 32) + rng.gen_range(1_000, 100_000),
                    _ => (1u64 << 31) + rng.gen_range(1_000, 100_000),
                };
                check(&Case::Long { loops, inner: 1, kt_finish: fins[rng.gen_range(0, 3)], kt_ratio: ratios[rng.gen_range(0, 5)], seed: rng.gen::<u32>() as u64 }, st);
            }
        }
        for _ in 0..n_s {
            check(&gen_case(rng, false), st);
        }
        for _ in 0..n_r {
            check(&gen_case(rng, true), st);
        }
    });
    std::panic::set_hook(prev);
    let mut st = Stats::new();
    cli_leg(ctx, &mut st);
    ctx.merge(st);
    ctx.set_min_nontrivial(200);
}

pub fn replay(ctx: &Ctx, case: &Value) {
    let prev = std::panic::take_hook();
    std::panic::set_hook(Box::new(|_| {}));
    let mut st = Stats::new();
    if let Ok(c) = serde_json::from_value::<Case>(case.clone()) {
        check(&c, &mut st);
    }
    std::panic::set_hook(prev);
    ctx.merge(st);
}
