//! One state object taken through a history of edits, judged after every one of them.
//!
//! The properties quantify over states, not over freshly built states: a state is a public
//! struct (shape and cell are public fields, every free parameter is reachable through the
//! basis handles, it can be cloned and read back from JSON), and what it reports must describe
//! the values it holds *now*, whatever it held and whatever was asked of it before.  The edits
//! are those a caller makes: several parameters changed at once (set, rescaled by powers of
//! two, negated, nudged by an ulp, exchanged), the shape replaced, the cell replaced by a wider
//! one holding the same values, clone(), a JSON round trip.
use std::f64::consts::PI;

use packing::traits::{Basis, State};
use packing::{Cell2, LJShape2, PackedState, PotentialState};
use rand::Rng;
use serde::{Deserialize, Serialize};
use serde_json::json;

use crate::common::*;
use crate::libx::{self, HardGeom, Params, ShapeSpec};
use crate::oracle::groups;

#[derive(Clone, Debug, Serialize, Deserialize)]
pub enum HOp {
    /// canonical parameter index (0 len, 1 ratio, 2 angle, 3 x, 4 y, 5 phi) -> value
    Set(Vec<(usize, f64)>),
    /// multiply by 2^j
    Scale(Vec<(usize, i32)>),
    Negate(Vec<usize>),
    /// move by n representable values
    Nudge(Vec<(usize, i64)>),
    Swap(usize, usize),
    /// the same as Set, but the handles are written on another thread (handles are Send, the
    /// values they point at are shared): the state is then judged on this thread again
    SetOnOtherThread(Vec<(usize, f64)>),
    /// undo the previous parameter edit through the handles' own reset_value()
    Reset,
    Shape(usize),
    CloneState,
    /// `existing.clone_from(&state)` where `existing` is a state of another group (index into
    /// the seven names) built for the same shape: the result must be what `state.clone()` is
    CloneFrom(usize),
    Json,
    /// replace the cell by one with wide bounds holding the same values
    BigCell,
}

impl HOp {
    fn needs_mut(&self) -> bool {
        matches!(self, HOp::Shape(_) | HOp::CloneState | HOp::CloneFrom(_) | HOp::Json | HOp::BigCell)
    }
}

#[derive(Clone, Debug, Serialize, Deserialize)]
pub struct History {
    pub group: String,
    /// all of one kind (polygons / discs / LJ)
    pub shapes: Vec<ShapeSpec>,
    pub lj: bool,
    pub start: Params,
    pub ops: Vec<HOp>,
}

pub trait Editable: State + Sized {
    type Sh: Clone;
    fn replace_shape(&mut self, s: Self::Sh);
    fn big_cell(&mut self);
    fn roundtrip(&self) -> Option<Self>;
    /// a fresh state of another group holding the same shape
    fn fresh_of_group(&self, group: &str) -> Option<Self>;
}

impl<S: HardGeom> Editable for PackedState<S> {
    type Sh = S;
    fn replace_shape(&mut self, s: S) {
        self.shape = s;
    }
    fn big_cell(&mut self) {
        self.cell = Cell2::from_family(self.wallpaper.family, libx::BIG_LEN);
    }
    fn roundtrip(&self) -> Option<Self> {
        serde_json::to_string(self).ok().and_then(|t| serde_json::from_str(&t).ok())
    }
    fn fresh_of_group(&self, group: &str) -> Option<Self> {
        PackedState::from_group(self.shape.clone(), &libx::lib_group(group).ok()?).ok()
    }
}

impl Editable for PotentialState<LJShape2> {
    type Sh = LJShape2;
    fn replace_shape(&mut self, s: LJShape2) {
        self.shape = s;
    }
    fn big_cell(&mut self) {
        self.cell = Cell2::from_family(self.wallpaper.family, libx::BIG_LEN);
    }
    fn roundtrip(&self) -> Option<Self> {
        serde_json::to_string(self).ok().and_then(|t| serde_json::from_str(&t).ok())
    }
    fn fresh_of_group(&self, group: &str) -> Option<Self> {
        PotentialState::from_group(self.shape.clone(), &libx::lib_group(group).ok()?).ok()
    }
}

fn next_by(x: f64, n: i64) -> f64 {
    if !x.is_finite() {
        return x;
    }
    let mut b = x.to_bits() as i64;
    // monotone integer view of the doubles
    if b < 0 {
        b = i64::MIN - b;
    }
    b = b.saturating_add(n);
    let u = if b < 0 { (i64::MIN - b) as u64 } else { b as u64 };
    let y = f64::from_bits(u);
    if y.is_finite() {
        y
    } else {
        x
    }
}

/// canonical index -> handle index (None: this group has no such parameter)
fn handle_of(group: &str, layout: &[usize], k: usize) -> Option<usize> {
    if libx::is_oblique(group) {
        layout.get(k).copied()
    } else {
        match k {
            0 | 1 => layout.get(k).copied(),
            2 => None,
            _ => layout.get(k - 1).copied(),
        }
    }
}

pub fn current_params<T: State>(state: &T, group: &str) -> Option<Params> {
    let layout = libx::basis_layout(group).ok()?;
    let v = libx::basis_values(state);
    let g = |k: usize| handle_of(group, &layout, k).and_then(|i| v.get(i).copied());
    Some(Params { len: g(0)?, ratio: g(1)?, angle: g(2).unwrap_or(PI / 2.), x: g(3)?, y: g(4)?, phi: g(5)? })
}

/// Drive `state` through the history; `judge(state, step, shape index, current parameters)` is
/// called on the starting state and after every edit.
pub fn drive<T: Editable, J: FnMut(&T, usize, usize, &Params, &mut Stats)>(h: &History, mut state: T, shapes: &[T::Sh], st: &mut Stats, mut judge: J) {
    let layout = match libx::basis_layout(&h.group) {
        Ok(l) => l,
        Err(e) => {
            st.inconclusive.push(e);
            return;
        }
    };
    let mut shape_ix = 0usize;
    if let Some(p) = current_params(&state, &h.group) {
        judge(&state, 0, shape_ix, &p, st);
    }
    let mut i = 0usize;
    while i < h.ops.len() {
        {
            let mut basis = state.generate_basis();
            let mut touched: Vec<usize> = vec![];
            while i < h.ops.len() && !h.ops[i].needs_mut() {
                let nb = basis.len();
                let hd = |k: usize| handle_of(&h.group, &layout, k).filter(|b| *b < nb);
                match &h.ops[i] {
                    HOp::Set(v) => {
                        touched.clear();
                        for (k, x) in v.iter() {
                            if let Some(b) = hd(*k) {
                                basis[b].set_value(*x);
                                touched.push(b);
                            }
                        }
                    }
                    HOp::Scale(v) => {
                        touched.clear();
                        for (k, j) in v.iter() {
                            if let Some(b) = hd(*k) {
                                let x = basis[b].get_value() * 2f64.powi(*j);
                                basis[b].set_value(x);
                                touched.push(b);
                            }
                        }
                    }
                    HOp::Negate(v) => {
                        touched.clear();
                        for k in v.iter() {
                            if let Some(b) = hd(*k) {
                                let x = -basis[b].get_value();
                                basis[b].set_value(x);
                                touched.push(b);
                            }
                        }
                    }
                    HOp::Nudge(v) => {
                        touched.clear();
                        for (k, n) in v.iter() {
                            if let Some(b) = hd(*k) {
                                let x = next_by(basis[b].get_value(), *n);
                                basis[b].set_value(x);
                                touched.push(b);
                            }
                        }
                    }
                    HOp::Swap(a, b) => {
                        touched.clear();
                        if let (Some(ia), Some(ib)) = (hd(*a), hd(*b)) {
                            let (xa, xb) = (basis[ia].get_value(), basis[ib].get_value());
                            basis[ia].set_value(xb);
                            basis[ib].set_value(xa);
                            touched.push(ia);
                            touched.push(ib);
                        }
                    }
                    HOp::SetOnOtherThread(v) => {
                        touched.clear();
                        let targets: Vec<(usize, f64)> = v.iter().filter_map(|(k, x)| hd(*k).map(|b| (b, *x))).collect();
                        let bref = &mut basis;
                        std::thread::scope(|sc| {
                            sc.spawn(move || {
                                for (b, x) in targets.iter() {
                                    bref[*b].set_value(*x);
                                }
                            });
                        });
                        st.count("edits_made_on_another_thread");
                    }
                    HOp::Reset => {
                        for b in touched.drain(..).rev() {
                            basis[b].reset_value();
                        }
                    }
                    _ => {}
                }
                i += 1;
                if let Some(p) = current_params(&state, &h.group) {
                    judge(&state, i, shape_ix, &p, st);
                }
            }
        }
        if i < h.ops.len() {
            match &h.ops[i] {
                HOp::Shape(k) if *k < shapes.len() => {
                    state.replace_shape(shapes[*k].clone());
                    shape_ix = *k;
                }
                HOp::CloneState => state = state.clone(),
                HOp::CloneFrom(g) => {
                    if let Some(mut existing) = state.fresh_of_group(groups::NAMES[*g % 7]) {
                        let want = serde_json::to_value(&state.clone()).ok();
                        existing.clone_from(&state);
                        let got = serde_json::to_value(&existing).ok();
                        st.count("clone_from_onto_a_state_of_another_group");
                        if want != got {
                            st.violation(Violation {
                                kind: "history".into(),
                                signature: "State::clone_from:not-what-clone-gives".into(),
                                case: json!({}),
                                detail: json!({"overwritten_state_was_of_group": groups::NAMES[*g % 7], "clone()": want, "clone_from()": got}),
                            });
                        }
                        state = existing;
                    }
                }
                HOp::Json => {
                    if let Some(s) = state.roundtrip() {
                        state = s;
                    }
                }
                HOp::BigCell => {
                    if let Some(p) = current_params(&state, &h.group) {
                        state.big_cell();
                        let _ = libx::set_params_via_basis(&state, &h.group, &p);
                    }
                }
                _ => {}
            }
            i += 1;
            if let Some(p) = current_params(&state, &h.group) {
                judge(&state, i, shape_ix, &p, st);
            }
        }
    }
    st.add("states_judged_inside_histories", h.ops.len() as u64 + 1);
    st.count("state_histories_run");
}

/// violations raised while a history was driven are only reproducible as the history
pub fn rewrap(st: &mut Stats, before: usize, prop_kind: &str, h: &History) {
    for v in st.violations.iter_mut().skip(before) {
        v.detail = json!({"state_in_hand": v.case, "what": v.detail, "note": "found inside a history of edits of one state object; replay runs the whole history"});
        v.case = serde_json::to_value(h).unwrap();
        // (the signature - call site and predicate - stays what the judge found)
        v.kind = prop_kind.to_string();
    }
}

const POOL: [&[f64]; 6] = [
    &[5., 2.5, 10., 20., 8., 6., 12., 7.5, 16., 40.],
    &[0.2, 0.25, 0.4, 0.5, 0.8, 1.0, 0.1, 0.75],
    &[PI / 2., PI / 3., 1.0, 1.2, PI / 4., PI / 6.],
    &[0., 0.25, -0.25, 0.125, 0.3, -0.4, 0.5, -0.5],
    &[0., 0.25, -0.25, 0.125, 0.3, -0.4, 0.5, -0.5],
    &[0., PI / 2., PI, 1., 2.5, 2. * PI],
];

fn rand_value<R: Rng>(rng: &mut R, k: usize, len_scale: f64) -> f64 {
    if rng.gen_bool(0.5) {
        let v = POOL[k][rng.gen_range(0, POOL[k].len())];
        if k == 0 {
            v * len_scale
        } else {
            v
        }
    } else {
        match k {
            0 => len_scale * rng.gen_range(2., 40.),
            1 => rng.gen_range(0.1, 1.),
            2 => rng.gen_range(PI / 6., PI / 2.),
            3 | 4 => rng.gen_range(-0.5, 0.5),
            _ => rng.gen_range(0., 2. * PI),
        }
    }
}

fn some_indices<R: Rng>(rng: &mut R, from: &[usize]) -> Vec<usize> {
    let n = [1usize, 2, 2, 2, 3, 6][rng.gen_range(0, 6)].min(from.len());
    let mut v: Vec<usize> = from.to_vec();
    for i in 0..n {
        let j = rng.gen_range(i, v.len());
        v.swap(i, j);
    }
    v.truncate(n);
    // adjacent parameters together, often
    if n >= 2 && rng.gen_bool(0.5) {
        let a = rng.gen_range(0, from.len() - 1);
        v[0] = from[a];
        v[1] = from[a + 1];
        v.dedup();
    }
    v
}

/// `len_scale`: multiplies the pooled cell lengths (keeps hard states dilute for big shapes)
pub fn gen_history<R: Rng>(rng: &mut R, group: &str, shapes: Vec<ShapeSpec>, lj: bool, len_scale: f64) -> History {
    let all: Vec<usize> = if libx::is_oblique(group) { vec![0, 1, 2, 3, 4, 5] } else { vec![0, 1, 3, 4, 5] };
    let start = Params {
        len: rand_value(rng, 0, len_scale),
        ratio: rand_value(rng, 1, 1.),
        angle: rand_value(rng, 2, 1.),
        x: rand_value(rng, 3, 1.),
        y: rand_value(rng, 4, 1.),
        phi: rand_value(rng, 5, 1.),
    };
    let mut ops = vec![];
    for _ in 0..rng.gen_range(3, 14) {
        ops.push(match rng.gen_range(0, 16) {
            0..=3 => HOp::Set(some_indices(rng, &all).into_iter().map(|k| (k, rand_value(rng, k, len_scale))).collect()),
            4..=7 => HOp::Scale(some_indices(rng, &all).into_iter().map(|k| (k, [-2, -1, 1, 2][rng.gen_range(0, 4)])).collect()),
            8 => HOp::Negate(some_indices(rng, &[3, 4, 5])),
            9 => HOp::Nudge(some_indices(rng, &all).into_iter().map(|k| (k, [-2i64, -1, 1, 2][rng.gen_range(0, 4)])).collect()),
            10 => {
                let pairs = [(3usize, 4usize), (0, 1), (3, 5), (4, 5)];
                let (a, b) = pairs[rng.gen_range(0, 4)];
                HOp::Swap(a, b)
            }
            11 => {
                if rng.gen_bool(0.5) {
                    HOp::Reset
                } else {
                    HOp::SetOnOtherThread(some_indices(rng, &all).into_iter().map(|k| (k, rand_value(rng, k, len_scale))).collect())
                }
            }
            12 => HOp::Shape(rng.gen_range(0, shapes.len())),
            13 => {
                if rng.gen_bool(0.5) {
                    HOp::CloneState
                } else {
                    HOp::CloneFrom(rng.gen_range(0, 7))
                }
            }
            14 => HOp::Json,
            _ => HOp::BigCell,
        });
    }
    let _ = groups::NAMES;
    History { group: group.to_string(), shapes, lj, start, ops }
}
