//! C01 - a scored hard packing has no overlapping shapes anywhere in the tiling.
use std::f64::consts::PI;
use std::sync::{Arc, Mutex};

use packing::traits::{Basis, State};
use packing::{BuildOptimiser, PackedState};
use rand::Rng;
use serde::{Deserialize, Serialize};
use serde_json::{json, Value};

use super::hard::{self, Contact};
use super::history::{self, History};
use crate::common::*;
use crate::libx::{self, build_packed, HardGeom, Params, ShapeSpec};
use crate::observe::spy::{Sink, Spy};
use crate::oracle::groups;

pub const TOL: f64 = 1e-9;

#[derive(Clone, Debug, Serialize, Deserialize)]
pub struct Case {
    pub group: String,
    pub shape: ShapeSpec,
    pub params: Params,
    pub workload: String,
}

fn signature<S: HardGeom>(st: &PackedState<S>, c: &Contact) -> String {
    // call site + what kind of pair was missed
    let kind = if c.n == 0 && c.m == 0 { "in-cell-pair".to_string() } else { format!("periodic-image-index-{}", c.lattice_index().min(4)) };
    let _ = st;
    format!("PackedState::score:scored-with-overlap:{}", kind)
}

/// oracle verdict on one concrete state; reports a violation when the library scores it
/// although copies overlap by more than the tolerance
pub fn judge<S: HardGeom>(state: &PackedState<S>, case: &Case, st: &mut Stats) -> Option<Contact> {
    st.eval();
    let score = state.score();
    let view = hard::view(state);
    let c = hard::deepest_contact(&view.shape, &view.placements, &view.lattice);
    let r = view.shape.enclosing_radius();
    if score.is_some() {
        st.count("library_scored");
        if c.depth > -0.05 * r {
            st.nontrivial(hash64(&[hash_str(&case.group), hash_str(&case.shape.label()), hash64(&case.params.quant())]));
            st.count(&format!("first_contact_lattice_index[{}][{}]", case.group, c.lattice_index().min(4)));
        }
        if c.depth > TOL {
            if !hard::reconfirm_overlap(&view, &c) {
                st.inconclusive.push(format!("oracle disagreement on witness {:?} depth {}", case, c.depth));
                return Some(c);
            }
            st.violation(Violation {
                kind: "c01.state".into(),
                signature: signature(state, &c),
                case: json!({"case": case, "state": hard::state_json(state)}),
                detail: json!({"library_score": score, "oracle": c.to_json(),
                    "cell": {"a": view.lattice.a, "b": view.lattice.b, "angle": view.lattice.theta}}),
            });
        } else {
            st.sample(|| json!({"case": case, "library_score": score, "oracle_deepest_contact": c.to_json()}));
        }
    } else {
        st.count("library_rejected");
        if c.depth > TOL {
            // a miss was possible here
            st.nontrivial(hash64(&[1, hash_str(&case.group), hash_str(&case.shape.label()), hash64(&case.params.quant())]));
            st.count(&format!("overlap_detected_by_library_at_lattice_index[{}]", c.lattice_index().min(4)));
        } else if c.depth < -TOL {
            st.count("library_rejects_although_oracle_sees_no_overlap(not a C01 event)");
        }
    }
    Some(c)
}

fn rand_site_coord<R: Rng>(rng: &mut R, focus: bool) -> f64 {
    if focus {
        // close to a cell face: 1e-5 .. 1e-1 from +-1/2, or exactly on it
        let d = 10f64.powf(rng.gen_range(-5., -1.));
        match rng.gen_range(0, 5) {
            0 => -0.5 + d,
            1 => 0.5 - d,
            2 => [-0.5, 0.5][rng.gen_range(0, 2)],
            3 => [0., 0.25, -0.25][rng.gen_range(0, 3)],
            _ => rng.gen_range(-0.5, 0.5),
        }
    } else {
        match rng.gen_range(0, 8) {
            0 => [-0.5, 0.5, 0., 0.25, -0.25][rng.gen_range(0, 5)],
            _ => rng.gen_range(-0.5, 0.5),
        }
    }
}

pub fn rand_config<R: Rng>(rng: &mut R, focus: bool) -> (String, ShapeSpec, Params) {
    let group = if focus {
        // multi-copy and oblique groups weighted up
        ["p1", "p2", "p2", "p1m1", "p1g1", "p2mm", "p2mg", "p2gg", "p2", "p1"][rng.gen_range(0, 10)]
    } else {
        groups::NAMES[rng.gen_range(0, 7)]
    };
    let shape = libx::gen::hard_shape(rng);
    let ratio = if focus && rng.gen_bool(0.5) { rng.gen_range(0.1, 0.5) } else { rng.gen_range(0.1, 1.0) };
    let angle = if focus && rng.gen_bool(0.5) { rng.gen_range(PI / 6., PI / 3.) } else { rng.gen_range(PI / 6., PI / 2.) };
    let p = Params {
        len: 1.,
        ratio: if rng.gen_bool(0.1) { 1. } else { ratio },
        angle: if rng.gen_bool(0.1) { PI / 2. } else { angle },
        x: rand_site_coord(rng, focus),
        y: rand_site_coord(rng, focus),
        phi: if rng.gen_bool(0.1) { [0., PI, 2. * PI][rng.gen_range(0, 3)] } else { rng.gen_range(0., 2. * PI) },
    };
    (group.to_string(), shape, p)
}

/// W1: uniform states at densities around contact
fn w1_generic<S: HardGeom, R: Rng>(shape: S, group: &str, spec: &ShapeSpec, mut p: Params, rng: &mut R, st: &mut Stats) {
    let copies = groups::group(group).unwrap().ops.len() as f64;
    let area = shape.oshape().area();
    // cell area = copies * area * k  with k in [0.8, 2.5]
    let k: f64 = rng.gen_range(0.8, 2.5);
    let sin = if libx::is_oblique(group) { p.angle.sin() } else { 1. };
    p.len = (copies * area * k / (p.ratio * sin)).sqrt();
    match build_packed(shape, group, &p) {
        Ok(state) => {
            let case = Case { group: group.to_string(), shape: spec.clone(), params: p, workload: "W1-uniform".into() };
            judge(&state, &case, st);
        }
        Err(e) => st.inconclusive.push(e),
    }
}

/// W2: bisect the cell length to the oracle's first contact, then ask the library just
/// inside the overlapping side
fn w2_generic<S: HardGeom, R: Rng>(shape: S, group: &str, spec: &ShapeSpec, p0: Params, _rng: &mut R, st: &mut Stats) {
    let _ = w2_core(shape, group, spec, p0, "W2", st);
}

/// the W2 procedure on one configuration; returns the oracle's first contact (which pair of
/// copies, which lattice image)
fn w2_core<S: HardGeom>(shape: S, group: &str, spec: &ShapeSpec, p0: Params, label: &str, st: &mut Stats) -> Option<Contact> {
    let oshape = shape.oshape();
    let r = oshape.enclosing_radius();
    let copies = groups::group(group).unwrap().ops.len() as f64;
    let mut p = p0;
    p.len = libx::BIG_LEN;
    let state = match build_packed(shape, group, &p) {
        Ok(s) => s,
        Err(e) => {
            st.inconclusive.push(e);
            return None;
        }
    };
    // one set of handles for the whole search: the length handle's upper bound stays large
    let mut basis = state.generate_basis();
    let depth_at = |basis: &mut Vec<packing::StandardBasis>, len: f64| -> Contact {
        basis[0].set_value(len);
        hard::contact_of(&state)
    };
    let mut hi = 8. * r * copies / p.ratio.min(1.) + 1.;
    // make sure hi is clear
    let mut guard = 0;
    while depth_at(&mut basis, hi).depth > 0. && guard < 8 {
        hi *= 2.;
        guard += 1;
    }
    if depth_at(&mut basis, hi).depth > 0. {
        st.count("w2_bracket_failed");
        return None;
    }
    // walk down geometrically until the first overlap (never visits tiny, image-dense cells)
    let mut lo = hi;
    let mut found = false;
    for _ in 0..200 {
        lo *= 0.85;
        if depth_at(&mut basis, lo).depth > 0. {
            found = true;
            break;
        }
        hi = lo;
    }
    if !found {
        st.count("w2_bracket_failed");
        return None;
    }
    for _ in 0..30 {
        let mid = 0.5 * (lo + hi);
        if depth_at(&mut basis, mid).depth > 0. {
            lo = mid;
        } else {
            hi = mid;
        }
    }
    let lstar = hi;
    let first = depth_at(&mut basis, lo);
    st.count(&format!("{}_first_contact_lattice_index[{}][{}]", label.to_lowercase(), group, first.lattice_index().min(4)));
    for eps in [1e-5, 1e-3, 1e-2, 3e-2, 0.1, 0.2].iter() {
        let len = lstar * (1. - eps);
        basis[0].set_value(len);
        let mut pp = p0;
        pp.len = basis[0].get_value();
        let case = Case { group: group.to_string(), shape: spec.clone(), params: pp, workload: format!("{}-contact-minus-{}", label, eps) };
        judge(&state, &case, st);
    }
    // and just outside (expected to score; feeds the non-trivial count and C02)
    basis[0].set_value(lstar * (1. + 1e-6));
    let mut pp = p0;
    pp.len = basis[0].get_value();
    let case = Case { group: group.to_string(), shape: spec.clone(), params: pp, workload: format!("{}-contact-plus-1e-6", label) };
    judge(&state, &case, st);
    Some(first)
}

/// W7: a walk over configurations that equalises how often each *class* of first contact is
/// visited - which ordered pair of copies, which lattice image (n, m).  Uniform sampling sees
/// the corner images of the second shell once in 1e8 configurations; the walk is accepted
/// towards classes it has seen less often (flat-histogram sampling), so that every reachable
/// class gets its share of W2 probes.
fn w7_walk<R: Rng>(rng: &mut R, st: &mut Stats, steps: u64) {
    use std::collections::HashMap;
    let group = ["p2", "p2", "p1", "p2gg", "p2mg"][rng.gen_range(0, 5)];
    let spec = match rng.gen_range(0, 6) {
        0 => libx::gen::trimer(rng),
        1 => ShapeSpec::Circle,
        _ => ShapeSpec::Polygon { sides: [3, 3, 3, 4, 5, 6][rng.gen_range(0, 6)] },
    };
    let oblique = libx::is_oblique(group);
    let (_, _, mut cur) = rand_config(rng, true);
    let mut cur_class: Option<(usize, usize, i64, i64)> = None;
    let mut hist: HashMap<(usize, usize, i64, i64), u64> = HashMap::new();
    let clampf = |v: f64, lo: f64, hi: f64| v.max(lo).min(hi);
    for _ in 0..steps {
        let mut q = cur;
        for _ in 0..rng.gen_range(1, 3) {
            let s = [0.003, 0.03, 0.3][rng.gen_range(0, 3)];
            let d = rng.gen_range(-1., 1.) * s;
            match rng.gen_range(0, 5) {
                0 => q.ratio = clampf(q.ratio + d, 0.1, 1.),
                1 => q.angle = if oblique { clampf(q.angle + d, PI / 6., PI / 2.) } else { q.angle },
                2 => q.x = clampf(q.x + d, -0.5, 0.5),
                3 => q.y = clampf(q.y + d, -0.5, 0.5),
                _ => q.phi = (q.phi + 6. * d).rem_euclid(2. * PI),
            }
        }
        let first = if let Some(sh) = spec.line() {
            w2_core(sh, group, &spec, q, "W7", st)
        } else if let Some(sh) = spec.mol() {
            w2_core(sh, group, &spec, q, "W7", st)
        } else {
            None
        };
        if let Some(f) = first {
            let c = (f.i, f.j, f.n, f.m);
            let hc = *hist.get(&c).unwrap_or(&0);
            let hcur = cur_class.and_then(|k| hist.get(&k).copied()).unwrap_or(u64::MAX);
            *hist.entry(c).or_insert(0) += 1;
            if f.lattice_index() >= 2 {
                st.count(&format!("w7_first_contact_image[{}][{},{}]{}", group, f.n, f.m, if f.i < f.j { "[i<j]" } else { "[i=j]" }));
            }
            // towards classes seen less often, and towards far images and shell corners (where an
            // image search is most likely to stop short)
            let weight = |k: (usize, usize, i64, i64)| 8f64.powi(k.2.abs().max(k.3.abs()).min(4) as i32) * if k.2.abs() == k.3.abs() && k.2 != 0 { 8. } else { 1. } * 4f64.powi(k.2.abs().min(k.3.abs()).min(3) as i32);
            let wcur = cur_class.map(weight).unwrap_or(0.);
            if rng.gen::<f64>() < (weight(c) / wcur.max(1e-300)) * (hcur as f64 + 1.) / (hc as f64 + 1.) {
                cur = q;
                cur_class = Some(c);
            }
        }
    }
    st.add("w7_distinct_first_contact_classes_seen_by_walks", hist.len() as u64);
}


/// Contact scale of two convex polygons given by their vertices about their own centres:
/// the factor t at which `pi` and `pj + t u` just touch (they overlap for smaller t).
fn contact_scale(pi: &[[f64; 2]], pj: &[[f64; 2]], u: [f64; 2]) -> f64 {
    let mut best = f64::INFINITY;
    let mut axis = |a: [f64; 2]| {
        let au = a[0] * u[0] + a[1] * u[1];
        for (sgn, au) in [(1., au), (-1., -au)].iter() {
            if *au > 1e-300 {
                let max_i = pi.iter().map(|p| sgn * (a[0] * p[0] + a[1] * p[1])).fold(f64::NEG_INFINITY, f64::max);
                let min_j = pj.iter().map(|p| sgn * (a[0] * p[0] + a[1] * p[1])).fold(f64::INFINITY, f64::min);
                let t = (max_i - min_j) / au;
                if t < best {
                    best = t;
                }
            }
        }
    };
    for poly in [pi, pj].iter() {
        for k in 0..poly.len() {
            let (p, q) = (poly[k], poly[(k + 1) % poly.len()]);
            axis([q[1] - p[1], p[0] - q[0]]);
        }
    }
    best
}

/// W8: search for states whose first contact is with a *chosen* image.  For a target class
/// (ordered pair of copies, lattice image (n, m) of the second or third shell) the margin
/// "contact length of the target - largest contact length of any other pair/image" is climbed
/// over (ratio, angle, site, orientation); where it becomes positive the target image is the one
/// that touches first, and the library is asked just inside that contact.  The search only
/// proposes states: every verdict comes from the exhaustive oracle in `judge`.
fn w8_target_search<R: Rng>(rng: &mut R, st: &mut Stats, iterations: u32) {
    let group = ["p2", "p2", "p2", "p1"][rng.gen_range(0, 4)];
    let sides = [3usize, 3, 3, 4, 5][rng.gen_range(0, 5)];
    let spec = ShapeSpec::Polygon { sides };
    let shape = match spec.line() {
        Some(s) => s,
        None => return,
    };
    let verts: Vec<[f64; 2]> = match shape.oshape() {
        crate::oracle::geom::OShape::Poly(v) => v,
        _ => return,
    };
    let ncopies = groups::group(group).unwrap().ops.len();
    // target: an image of the second or third shell, either sign, corners favoured
    let pick = |rng: &mut R| -> (i64, i64) {
        let k = [2i64, 2, 2, 3][rng.gen_range(0, 4)];
        if rng.gen_bool(0.5) {
            let s = if rng.gen_bool(0.5) { 1 } else { -1 };
            let t = if rng.gen_bool(0.7) { -s } else { s };
            (s * k, t * k)
        } else {
            let other = rng.gen_range(-k, k + 1);
            let s = if rng.gen_bool(0.5) { k } else { -k };
            if rng.gen_bool(0.5) {
                (s, other)
            } else {
                (other, s)
            }
        }
    };
    let (tn, tm) = pick(rng);
    let (ti, tj) = if ncopies == 1 || rng.gen_bool(0.2) { (0usize, 0usize) } else { (0, 1) };
    if ti == tj && (tn, tm) < (0, 0) {
        // (for a copy and itself, image n is image -n seen from the other side)
    }
    let (_, _, mut p) = rand_config(rng, true);
    p.len = 1.;
    let mut pbig = p;
    pbig.len = libx::BIG_LEN;
    let state = match build_packed(shape, group, &pbig) {
        Ok(s) => s,
        Err(_) => return,
    };
    let decoy = packing::LineShape::from_radial("decoy", vec![0.2; sides]).ok().and_then(|d| build_packed(d, group, &pbig).ok());
    let mut basis = state.generate_basis();
    let layout = match libx::basis_layout(group) {
        Ok(l) => l,
        Err(_) => return,
    };
    let oblique = libx::is_oblique(group);
    // margin and the contact length of the target, for the parameters written into the state
    let eval = |basis: &mut Vec<packing::StandardBasis>, q: &Params| -> Option<(f64, f64)> {
        let vals: Vec<f64> = if oblique { vec![1., q.ratio, q.angle, q.x, q.y, q.phi] } else { vec![1., q.ratio, q.x, q.y, q.phi] };
        for (k, v) in vals.iter().enumerate() {
            basis[layout[k]].set_value(*v);
        }
        let view = hard::view(&state);
        if view.placements.len() != ncopies {
            return None;
        }
        let polys: Vec<Vec<[f64; 2]>> = view.placements.iter().map(|t| verts.iter().map(|v| [t.m[0][0] * v[0] + t.m[0][1] * v[1], t.m[1][0] * v[0] + t.m[1][1] * v[1]]).collect()).collect();
        let (va, vb) = (view.lattice.va(), view.lattice.vb());
        let mut target = f64::NAN;
        let mut others = 0f64;
        for i in 0..ncopies {
            for j in i..ncopies {
                for n in -4i64..=4 {
                    for m in -4i64..=4 {
                        if i == j && n == 0 && m == 0 {
                            continue;
                        }
                        let u = [view.placements[j].t[0] - view.placements[i].t[0] + n as f64 * va[0] + m as f64 * vb[0], view.placements[j].t[1] - view.placements[i].t[1] + n as f64 * va[1] + m as f64 * vb[1]];
                        let t = contact_scale(&polys[i], &polys[j], u);
                        let is_target = (i, j, n, m) == (ti, tj, tn, tm) || (i == j && ti == tj && (n, m) == (-tn, -tm));
                        if is_target {
                            target = t;
                        } else if t > others {
                            others = t;
                        }
                    }
                }
            }
        }
        if target.is_finite() {
            Some((target - others, target))
        } else {
            None
        }
    };
    let clampf = |v: f64, lo: f64, hi: f64| v.max(lo).min(hi);
    let mut cur = p;
    let mut cur_m = match eval(&mut basis, &cur) {
        Some(x) => x,
        None => return,
    };
    st.count("w8_searches");
    let mut probes = 0;
    for it in 0..iterations {
        let mut q = cur;
        for _ in 0..rng.gen_range(1, 3) {
            let sdev = [0.002, 0.02, 0.2][rng.gen_range(0, 3)];
            let d = rng.gen_range(-1., 1.) * sdev;
            match rng.gen_range(0, 5) {
                0 => q.ratio = clampf(q.ratio + d, 0.1, 1.),
                1 => q.angle = if oblique { clampf(q.angle + d, PI / 6., PI / 2.) } else { q.angle },
                2 => q.x = clampf(q.x + d, -0.5, 0.5),
                3 => q.y = clampf(q.y + d, -0.5, 0.5),
                _ => q.phi = (q.phi + 6. * d).rem_euclid(2. * PI),
            }
        }
        let m = match eval(&mut basis, &q) {
            Some(x) => x,
            None => continue,
        };
        // relative margin: climb, with a little tolerance early on
        let better = m.0 / m.1 > cur_m.0 / cur_m.1 - if it < iterations / 2 { 0.002 } else { 0. };
        if better {
            cur = q;
            cur_m = m;
        }
        if m.0 > 1e-6 * m.1 && probes < 6 {
            // the target image touches first, at cell length m.1: ask the library just inside
            probes += 1;
            st.count(&format!("w8_states_whose_first_contact_is_image[{}][{},{}]{}", group, tn, tm, if ti < tj { "[i<j]" } else { "[i=j]" }));
            let vals: Vec<f64> = if oblique { vec![1., q.ratio, q.angle, q.x, q.y, q.phi] } else { vec![1., q.ratio, q.x, q.y, q.phi] };
            for (k, v) in vals.iter().enumerate() {
                basis[layout[k]].set_value(*v);
            }
            for frac in [0.1, 0.5, 0.9].iter() {
                // between the target's contact length and the next pair's
                let len = m.1 - frac * m.0;
                basis[layout[0]].set_value(len);
                if probes % 2 == 0 {
                    // what this thread evaluated just before must not matter: a much smaller
                    // shape in the very same cell (same lengths and angle to the last bit) is
                    // scored first
                    if let Some(d) = decoy.as_ref() {
                        let mut pd = q;
                        pd.len = basis[layout[0]].get_value();
                        let _ = libx::set_params_via_basis(d, group, &pd);
                        let _ = d.score();
                    }
                }
                let mut pp = q;
                pp.len = basis[layout[0]].get_value();
                let case = Case { group: group.to_string(), shape: spec.clone(), params: pp, workload: format!("W8-only-image-({},{})-overlaps{}", tn, tm, if probes % 2 == 0 { " (scored right after a radius-0.2 polygon in the same cell on the same thread; a replay on a fresh thread does not repeat that)" } else { "" }) };
                judge(&state, &case, st);
            }
        }
    }
    if probes > 0 {
        st.count("w8_searches_that_reached_their_target");
    }
}

/// W9: states with several occupied sites of different multiplicity (public
/// `PackedState::initialise`): copies of different sites overlap like any others.
pub fn w9_multi_site(seed: u64, st: &mut Stats) {
    use packing::wallpaper::{Wallpaper, WyckoffSite};
    use packing::{CrystalFamily, LineShape, Transform2};
    let mut rng = crate::common::rng_for(seed, 909);
    let group = ["p2", "p1", "p2mg", "p1m1", "p2gg", "p2mm"][rng.gen_range(0, 6)];
    let wg = match libx::lib_group(group) {
        Ok(g) => g,
        Err(_) => return,
    };
    let general = match WyckoffSite::new(&wg) {
        Ok(s) => s,
        Err(_) => return,
    };
    let flags = (rng.gen_range(0u64, 5), rng.gen_bool(0.3), rng.gen_bool(0.3));
    let one = |ops: &[&str]| WyckoffSite { letter: 'b', symmetries: ops.iter().filter_map(|o| Transform2::from_operations(o).ok()).collect(), num_rotations: flags.0, mirror_primary: flags.1, mirror_secondary: flags.2 };
    let mut sites = match rng.gen_range(0, 4) {
        0 => vec![general.clone(), one(&["x,y"])],
        1 => vec![general.clone(), one(&["x,y"]), one(&["x,y"])],
        2 => vec![general.clone(), general.clone()],
        _ => vec![one(&["x,y"]), one(&["x,y"]), one(&["x,y"])],
    };
    let k = rng.gen_range(0, sites.len());
    sites.swap(0, k);
    let sides = if rng.gen_range(0, 6) == 0 { [33usize, 41, 64, 100][rng.gen_range(0, 4)] } else { rng.gen_range(3, 9) };
    let shape = match LineShape::polygon(sides) {
        Ok(s) => s,
        Err(_) => return,
    };
    let area = shape.oshape().area();
    let family = if libx::is_oblique(group) { CrystalFamily::Monoclinic } else { CrystalFamily::Orthorhombic };
    let state0 = PackedState::initialise(shape, Wallpaper { name: group.to_string(), family }, &sites);
    let mut v = match serde_json::to_value(&state0) {
        Ok(v) => v,
        Err(_) => return,
    };
    let n: usize = sites.iter().map(|s| s.symmetries.len()).sum();
    let ratio: f64 = rng.gen_range(0.3, 1.);
    let angle: f64 = if libx::is_oblique(group) { rng.gen_range(PI / 6., PI / 2.) } else { PI / 2. };
    // cell area = copies x shape area x (0.9 .. 3)
    let kk: f64 = rng.gen_range(0.9, 3.);
    let len = (n as f64 * area * kk / (ratio * angle.sin())).sqrt();
    v["cell"]["length"] = json!(len);
    v["cell"]["ratio"] = json!(ratio);
    v["cell"]["angle"] = json!(angle);
    for i in 0..sites.len() {
        v["occupied_sites"][i]["x"] = json!(rand_site_coord(&mut rng, false));
        v["occupied_sites"][i]["y"] = json!(rand_site_coord(&mut rng, false));
        v["occupied_sites"][i]["angle"] = json!(rng.gen_range(0., 2. * PI));
    }
    let state: PackedState<LineShape> = match serde_json::from_value(v) {
        Ok(s) => s,
        Err(_) => return,
    };
    st.count("w9_multi_site_states");
    let case = Case { group: group.to_string(), shape: ShapeSpec::Polygon { sides }, params: Params { len, ratio, angle, x: 0., y: 0., phi: 0. }, workload: format!("W9-several-sites seed={}", seed) };
    judge(&state, &case, st);
}

fn dispatch_w<R: Rng>(which: u8, rng: &mut R, st: &mut Stats) {
    let focus = which == 2;
    let (group, spec, p) = rand_config(rng, focus);
    if let Some(s) = spec.line() {
        if which == 1 {
            w1_generic(s, &group, &spec, p, rng, st)
        } else {
            w2_generic(s, &group, &spec, p, rng, st)
        }
    } else if let Some(s) = spec.mol() {
        if which == 1 {
            w1_generic(s, &group, &spec, p, rng, st)
        } else {
            w2_generic(s, &group, &spec, p, rng, st)
        }
    }
}

/// Sink for W3: oracle on a bounded sample of scored evaluations along real optimiser runs
struct OracleSink {
    case: Case,
    stats: Stats,
    seen: u64,
    budget: u64,
    every: u64,
}

impl<S: HardGeom> Sink<PackedState<S>> for OracleSink {
    fn on_score(&mut self, inner: &PackedState<S>, _v: &[f64], score: Option<f64>) {
        if score.is_none() {
            return;
        }
        self.seen += 1;
        if self.budget == 0 || self.seen % self.every != 0 {
            return;
        }
        self.budget -= 1;
        // NB: judge() calls inner.score() again (pure function of the parameters)
        let mut c = self.case.clone();
        let v = libx::basis_values(inner);
        c.workload = format!("W3-in-situ-evaluation params={:?}", v);
        judge(inner, &c, &mut self.stats);
    }
}

fn chain3<T: State>(s: T, o1: &BuildOptimiser, o2: &BuildOptimiser, o3: &BuildOptimiser) -> impl State {
    let a = o1.build().optimise_state(s);
    let b = o2.build().optimise_state(a);
    o3.build().optimise_state(b)
}

/// W3: real optimisation pipelines that compress (the adversary of the overlap test)
fn w3_generic<S: HardGeom, R: Rng>(shape: S, group: &str, spec: &ShapeSpec, rng: &mut R, st: &mut Stats, steps: u64) {
    let wg = match libx::lib_group(group) {
        Ok(g) => g,
        Err(e) => {
            st.inconclusive.push(e);
            return;
        }
    };
    let state = match PackedState::from_group(shape, &wg) {
        Ok(s) => s,
        Err(e) => {
            st.inconclusive.push(e.to_string());
            return;
        }
    };
    if state.score().is_none() {
        st.count("w3_initial_state_invalid");
        return;
    }
    let case = Case { group: group.to_string(), shape: spec.clone(), params: Params { len: 0., ratio: 0., angle: 0., x: 0., y: 0., phi: 0. }, workload: "W3".into() };
    let sink = Arc::new(Mutex::new(OracleSink { case: case.clone(), stats: Stats::new(), seen: 0, budget: 300, every: rng.gen_range(7, 60) }));
    let dynsink: Arc<Mutex<dyn Sink<PackedState<S>>>> = sink.clone();
    let spy = Spy::new(state, dynsink);
    let seed: u64 = rng.gen();
    // hill climbing with a single inner loop per stage and decreasing step (the schedule bugs
    // of C18/C19 do not act within one loop), and the CLI's own three-stage shape
    let cli_like = rng.gen_bool(0.5);
    let mut o1 = BuildOptimiser::default();
    let mut o2 = BuildOptimiser::default();
    let mut o3 = BuildOptimiser::default();
    if cli_like {
        o1.steps(1000).kt_start(0.).seed(seed).convergence(None);
        o2.steps(steps).seed(seed).kt_start(0.1).max_step_size(0.01);
        o3.steps(steps).seed(seed).kt_start(0.);
    } else {
        o1.steps(steps).inner_steps(steps).kt_start(0.).kt_ratio(Some(0.)).max_step_size(0.05).seed(seed);
        o2.steps(steps).inner_steps(steps).kt_start(0.).kt_ratio(Some(0.)).max_step_size(0.005).seed(seed ^ 1);
        o3.steps(steps).inner_steps(steps).kt_start(0.).kt_ratio(Some(0.)).max_step_size(0.0005).seed(seed ^ 2);
    }
    let result = std::panic::catch_unwind(std::panic::AssertUnwindSafe(|| {
        let fin = chain3(spy, &o1, &o2, &o3);
        (serde_json::to_value(&fin).ok(), fin.score())
    }));
    let mut inner = std::mem::take(&mut sink.lock().unwrap().stats);
    st.merge(std::mem::take(&mut inner));
    match result {
        Ok((Some(js), score)) => {
            st.count("w3_pipelines_completed");
            // the returned structure itself, re-read through JSON like a user would
            if let Ok(fin) = serde_json::from_value::<PackedState<S>>(js) {
                let mut c = case;
                c.workload = format!("W3-pipeline-result seed={} cli_like={} steps={}", seed, cli_like, steps);
                if let Some(con) = judge(&fin, &c, st) {
                    if score.is_some() && con.depth > -1e-3 {
                        st.count("w3_results_within_1e-3_of_contact");
                    }
                }
            }
        }
        Ok((None, _)) => st.count("w3_unserialisable_result"),
        Err(_) => st.count("w3_pipeline_panicked(not a C01 event; see C20/C08)"),
    }
}

fn dispatch_w3<R: Rng>(rng: &mut R, st: &mut Stats, steps: u64) {
    let group = groups::NAMES[rng.gen_range(0, 7)];
    let spec = libx::gen::hard_shape(rng);
    if let Some(s) = spec.line() {
        w3_generic(s, group, &spec, rng, st, steps)
    } else if let Some(s) = spec.mol() {
        w3_generic(s, group, &spec, rng, st, steps)
    }
}

/// W4: what the CLI writes
fn w4_cli(ctx: &Ctx, st: &mut Stats) {
    use crate::observe::cli;
    let exe = match &ctx.args.cli {
        Some(p) => p.clone(),
        None => return,
    };
    let runs: Vec<Vec<&str>> = vec![
        vec!["p2", "polygon", "--sides", "4"],
        vec!["p2mg", "trimer"],
        vec!["p1", "circle"],
        vec!["p2gg", "polygon", "--sides", "5"],
        vec!["p1g1", "trimer", "--radius", "0.8", "--angle", "100"],
        vec!["p2mm", "polygon", "--sides", "3"],
    ];
    for (i, r) in runs.iter().enumerate() {
        let out = cli::run(&exe, &format!("c01-{}-{}", ctx.seed, i), &["--replications", "4", "--steps", "3000", "--inner-steps", "1000"], r, &[], 120);
        st.eval();
        if out.status != Some(0) {
            st.count("w4_cli_nonzero_exit(not a C01 event)");
            continue;
        }
        let js = match out.json.as_ref().and_then(|t| crate::oracle::xjson::parse(t).ok()) {
            Some(j) => j,
            None => continue,
        };
        let case = Case { group: r[0].to_string(), shape: ShapeSpec::Circle, params: Params { len: 0., ratio: 0., angle: 0., x: 0., y: 0., phi: 0. }, workload: format!("W4-cli-output argv={:?}", r) };
        if r[1] == "polygon" {
            if let Ok(s) = serde_json::from_value::<PackedState<packing::LineShape>>(js) {
                judge(&s, &case, st);
                st.count("w4_cli_outputs_checked");
            }
        } else if let Ok(s) = serde_json::from_value::<PackedState<packing::MolecularShape2>>(js) {
            judge(&s, &case, st);
            st.count("w4_cli_outputs_checked");
        }
    }
}

/// W5: one hard state object edited again and again, judged after every edit
pub fn check_history(h: &History, st: &mut Stats) {
    let before = st.violations.len();
    fn go<S: HardGeom>(h: &History, shapes: Vec<S>, st: &mut Stats) {
        if let Ok(state) = build_packed(shapes[0].clone(), &h.group, &h.start) {
            history::drive(h, state, &shapes, st, |s, _step, six, p, st| {
                let c = Case { group: h.group.clone(), shape: h.shapes[six].clone(), params: *p, workload: "W5-history".into() };
                judge(s, &c, st);
            });
        }
    }
    if h.shapes.iter().all(|s| s.is_line()) {
        go(h, h.shapes.iter().filter_map(|s| s.line()).collect::<Vec<_>>(), st);
    } else {
        let v: Vec<_> = h.shapes.iter().filter_map(|s| s.mol()).collect();
        if v.len() == h.shapes.len() {
            go(h, v, st);
        }
    }
    history::rewrap(st, before, "c01.history", h);
}

pub fn gen_history<R: Rng>(rng: &mut R) -> History {
    let (group, first, _) = rand_config(rng, true);
    let n = rng.gen_range(1, 4);
    let mut shapes = vec![first.clone()];
    while shapes.len() < n {
        let s = libx::gen::hard_shape(rng);
        if s.is_line() == first.is_line() {
            shapes.push(s);
        }
    }
    // around contact: pooled lengths 2.5..40 x 0.25 x sqrt(copies)
    let copies = groups::group(&group).unwrap().ops.len() as f64;
    history::gen_history(rng, &group, shapes, false, 0.3 * copies.sqrt())
}

pub fn run(ctx: &Ctx) {
    ctx.set_rule("W1 uniform states (7 groups x polygons 3..12 / circle / trimers x cells x sites incl. exact faces and special positions, cell area 0.8-2.5 x the copies' area); W2 boundary-focused: per configuration (copies 1e-5..1e-1 from cell faces, ratio down to 0.1, angle down to pi/6) the cell length is bisected to the oracle's first contact L* and the library is asked at L*(1-eps), eps in {1e-5,1e-3,1e-2,3e-2,0.1,0.2}, and at L*(1+1e-6); W3 real three-stage optimiser pipelines (hill-climb and CLI-shaped) observed through Spy: every stage result and a bounded sample of scored evaluations; W4 JSON files written by the CLI; W9 states with several occupied sites of different multiplicity around contact densities; W8 targeted search: for a chosen image (n,m) of the second or third shell and an ordered pair of copies, the margin between that pair's contact length and every other pair's is climbed over (ratio, angle, site, orientation) with exact contact lengths from separating axes, and where the chosen image touches first the library is asked between its contact length and the next one's; W7 flat-histogram walks: the W2 procedure along Markov chains over (ratio, angle, site, orientation) that are accepted towards first-contact classes - ordered pair of copies x lattice image (n,m) - visited less often, so that rare images (corners of the second and third shell) get their share of probes; W5 state objects that live through histories of 3-13 edits (several parameters at once - set, rescaled by powers of two, negated, nudged, exchanged, reset -, shape or cell replaced, clone(), JSON round trip), judged after every edit. Oracle: exhaustive image enumeration from cell heights + SAT/disc depth; event = library score defined while depth > 1e-9 (re-confirmed by polygon clipping / lens point). Non-trivial = scored states within 5% R of contact, and overlapping states (where a miss is possible); distinct by quantised parameters");
    ctx.assume("convex regular polygons and unions of discs; placements are taken from cartesian_positions() (their correctness is C04/C14/C15)");
    let tier = ctx.tier;
    // per shard (64 shards)
    let n1 = tier.pick(6_000u64, 200_000u64);
    let n2 = tier.pick(16_000u64, 500_000u64);
    let n3 = tier.pick(2u64, 40u64);
    let steps3 = tier.pick(4_000u64, 20_000u64);
    par_shards(ctx, 1, 64, |_, rng, st| {
        for _ in 0..n1 {
            dispatch_w(1, rng, st);
        }
        for _ in 0..n2 {
            dispatch_w(2, rng, st);
        }
        for _ in 0..n1 / 30 {
            check_history(&gen_history(rng), st);
        }
        for _ in 0..2 {
            w7_walk(rng, st, n2 / 8);
        }
        for _ in 0..n2 / 80 {
            w8_target_search(rng, st, 400);
        }
        for _ in 0..n1 / 2 {
            w9_multi_site(rng.gen(), st);
        }
    });
    let prev = std::panic::take_hook();
    std::panic::set_hook(Box::new(|_| {}));
    par_shards(ctx, 101, 64, |_, rng, st| {
        for _ in 0..n3 {
            dispatch_w3(rng, st, steps3);
        }
    });
    std::panic::set_hook(prev);
    let mut st = Stats::new();
    w4_cli(ctx, &mut st);
    ctx.merge(st);
    ctx.set_min_nontrivial(5_000);
}

pub fn replay(ctx: &Ctx, case: &Value) {
    // the witness carries the full state as the library serialised it
    let mut st = Stats::new();
    if let Ok(h) = serde_json::from_value::<History>(case.clone()) {
        check_history(&h, &mut st);
        ctx.merge(st);
        return;
    }
    let c: Option<Case> = serde_json::from_value(case["case"].clone()).ok();
    if let Some(c) = c {
        let js = case["state"].clone();
        let is_line = js["shape"]["items"][0].get("start").is_some();
        if is_line {
            if let Ok(s) = serde_json::from_value::<PackedState<packing::LineShape>>(js) {
                judge(&s, &c, &mut st);
            }
        } else if let Ok(s) = serde_json::from_value::<PackedState<packing::MolecularShape2>>(js) {
            judge(&s, &c, &mut st);
        }
    }
    ctx.merge(st);
}
