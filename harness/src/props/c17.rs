//! C17 - symmetry-operation strings parse to the affine map they denote; arbitrary
//! strings never crash.  The generator builds strings from a structured description, so the
//! denoted map is known by construction (no second parser involved).
use std::panic;

use nalgebra::Point2;
use packing::Transform2;
use rand::Rng;
use serde::{Deserialize, Serialize};
use serde_json::json;

use crate::common::*;
use crate::libx::to_affine;

#[derive(Clone, Copy, Debug, Serialize, Deserialize, PartialEq)]
pub enum Term {
    X { neg: bool },
    Y { neg: bool },
    /// p or p/q, single digits, q >= 1
    C { neg: bool, p: u8, q: Option<u8> },
}

#[derive(Clone, Debug, Serialize, Deserialize, PartialEq)]
pub struct Fmt {
    pub parens: bool,
    pub space_after_comma: bool,
    pub space_around_ops: bool,
    pub explicit_plus: bool,
    pub space_in_fraction: bool,
}

fn render_component(terms: &[Term], f: &Fmt) -> String {
    let mut s = String::new();
    for (i, t) in terms.iter().enumerate() {
        let neg = match t {
            Term::X { neg } | Term::Y { neg } | Term::C { neg, .. } => *neg,
        };
        let sign = if neg {
            "-"
        } else if i > 0 || f.explicit_plus {
            "+"
        } else {
            ""
        };
        if i > 0 && f.space_around_ops {
            s.push(' ');
        }
        s.push_str(sign);
        if i > 0 && f.space_around_ops {
            s.push(' ');
        }
        match t {
            Term::X { .. } => s.push('x'),
            Term::Y { .. } => s.push('y'),
            Term::C { p, q, .. } => {
                s.push_str(&p.to_string());
                if let Some(q) = q {
                    if f.space_in_fraction {
                        s.push_str(" / ");
                    } else {
                        s.push('/');
                    }
                    s.push_str(&q.to_string());
                }
            }
        }
    }
    s
}

pub fn render(c0: &[Term], c1: &[Term], f: &Fmt) -> String {
    let body = format!(
        "{}{}{}",
        render_component(c0, f),
        if f.space_after_comma { ", " } else { "," },
        render_component(c1, f)
    );
    if f.parens {
        format!("({})", body)
    } else {
        body
    }
}

/// row of the affine map denoted by a component: (coefficient of x, of y, constant)
fn denoted(terms: &[Term]) -> [f64; 3] {
    let mut r = [0.; 3];
    for t in terms {
        match t {
            Term::X { neg } => r[0] += if *neg { -1. } else { 1. },
            Term::Y { neg } => r[1] += if *neg { -1. } else { 1. },
            Term::C { neg, p, q } => {
                let v = *p as f64 / q.map(|q| q as f64).unwrap_or(1.);
                r[2] += if *neg { -v } else { v };
            }
        }
    }
    r
}

fn silent_parse(s: &str) -> Result<Result<Transform2, String>, String> {
    let owned = s.to_string();
    panic::catch_unwind(move || Transform2::from_operations(&owned).map_err(|e| e.to_string()))
        .map_err(|e| {
            if let Some(m) = e.downcast_ref::<String>() {
                m.clone()
            } else if let Some(m) = e.downcast_ref::<&str>() {
                m.to_string()
            } else {
                "panic".to_string()
            }
        })
}

const POINTS: [[f64; 2]; 6] = [[0., 0.], [1., 0.], [0., 1.], [0.37, -0.81], [-0.125, 0.4375], [2.5, 3.25]];

pub fn check_grammar(c0: &[Term], c1: &[Term], f: &Fmt, st: &mut Stats) {
    let s = render(c0, c1, f);
    st.eval();
    st.nontrivial(hash_str(&s));
    let case = json!({"c0": c0, "c1": c1, "fmt": f, "string": s});
    match silent_parse(&s) {
        Err(p) => st.violation(Violation {
            kind: "c17.grammar".into(),
            signature: "Transform2::from_operations:panic-on-grammar-string".into(),
            case,
            detail: json!({ "panic": p }),
        }),
        Ok(Err(e)) => st.violation(Violation {
            kind: "c17.grammar".into(),
            signature: "Transform2::from_operations:rejects-grammar-string".into(),
            case,
            detail: json!({ "error": e }),
        }),
        Ok(Ok(t)) => {
            let want = [denoted(c0), denoted(c1)];
            let a = to_affine(&t);
            let mut bad = None;
            for p in POINTS.iter() {
                let exp = [
                    want[0][0] * p[0] + want[0][1] * p[1] + want[0][2],
                    want[1][0] * p[0] + want[1][1] * p[1] + want[1][2],
                ];
                let got_m = a.apply(*p);
                let got_p = &t * Point2::new(p[0], p[1]);
                for k in 0..2 {
                    let g2 = if k == 0 { got_p.x } else { got_p.y };
                    if (got_m[k] - exp[k]).abs() > 1e-15 * (1. + exp[k].abs())
                        || (g2 - exp[k]).abs() > 1e-15 * (1. + exp[k].abs())
                    {
                        bad = Some(json!({"point": p, "expected": exp, "matrix_gives": got_m, "mul_gives": [got_p.x, got_p.y]}));
                    }
                }
            }
            if let Some(d) = bad {
                st.violation(Violation {
                    kind: "c17.grammar".into(),
                    signature: "Transform2::from_operations:wrong-map".into(),
                    case,
                    detail: d,
                });
            } else {
                st.sample(|| json!({"string": s, "denotes_rows": want}));
            }
        }
    }
}

/// every component of the grammar: non-empty subset of {x-term, y-term, constant}, every
/// order, every sign; constants p in 0..=9, optional /q with q in 1..=9
pub fn all_components(consts: &[(u8, Option<u8>)]) -> Vec<Vec<Term>> {
    let mut out = vec![];
    let signs = [false, true];
    let mut xs = vec![];
    let mut ys = vec![];
    let mut cs = vec![];
    for &n in signs.iter() {
        xs.push(Term::X { neg: n });
        ys.push(Term::Y { neg: n });
        for &(p, q) in consts {
            cs.push(Term::C { neg: n, p, q });
        }
    }
    fn perms(v: &[Term]) -> Vec<Vec<Term>> {
        if v.len() <= 1 {
            return vec![v.to_vec()];
        }
        let mut out = vec![];
        for i in 0..v.len() {
            let mut rest = v.to_vec();
            let h = rest.remove(i);
            for mut p in perms(&rest) {
                p.insert(0, h);
                out.push(p);
            }
        }
        out
    }
    for x in xs.iter().map(Some).chain(std::iter::once(None)) {
        for y in ys.iter().map(Some).chain(std::iter::once(None)) {
            for c in cs.iter().map(Some).chain(std::iter::once(None)) {
                let set: Vec<Term> = [x, y, c].iter().filter_map(|t| t.copied()).collect();
                if set.is_empty() {
                    continue;
                }
                out.extend(perms(&set));
            }
        }
    }
    out
}

fn all_consts() -> Vec<(u8, Option<u8>)> {
    let mut v = vec![];
    for p in 0..=9u8 {
        v.push((p, None));
        for q in 1..=9u8 {
            v.push((p, Some(q)));
        }
    }
    v
}

fn fmts() -> Vec<Fmt> {
    let mut v = vec![];
    for k in 0..32u32 {
        v.push(Fmt {
            parens: k & 1 != 0,
            space_after_comma: k & 2 != 0,
            space_around_ops: k & 4 != 0,
            explicit_plus: k & 8 != 0,
            space_in_fraction: k & 16 != 0,
        });
    }
    v
}

/// a character for mutations: the parser's own alphabet, look-alikes of it in other blocks
/// (number forms, super/subscripts, fullwidth forms, other scripts' digits, dashes and spaces),
/// or any scalar value
fn any_char<R: Rng>(rng: &mut R, alphabet: &[char]) -> char {
    const BLOCKS: [(u32, u32); 9] = [(0x2150, 0x2190), (0x2070, 0x20A0), (0xFF00, 0xFFF0), (0x0660, 0x066A), (0x2010, 0x2016), (0x2212, 0x2216), (0x2000, 0x2010), (0x00B0, 0x00C0), (0x1D7CE, 0x1D800)];
    match rng.gen_range(0, 4) {
        0 => {
            let (lo, hi) = BLOCKS[rng.gen_range(0, BLOCKS.len())];
            std::char::from_u32(rng.gen_range(lo, hi)).unwrap_or('x')
        }
        1 => std::char::from_u32(rng.gen_range(0, 0x110000)).unwrap_or('y'),
        _ => alphabet[rng.gen_range(0, alphabet.len())],
    }
}

pub fn arbitrary_string<R: Rng>(rng: &mut R) -> String {
    let alphabet: Vec<char> = "xyXYz0123456789+-*/,.() \t\n()[]{}abc\u{e9}\u{4e2d}\u{1F600}\0\\\"'eE".chars().collect();
    match rng.gen_range(0, 8) {
        0 => {
            let n = rng.gen_range(0, 64);
            let bytes: Vec<u8> = (0..n).map(|_| rng.gen()).collect();
            String::from_utf8_lossy(&bytes).into_owned()
        }
        1 => {
            // very long
            let n = rng.gen_range(1000, 20000);
            (0..n).map(|_| alphabet[rng.gen_range(0, alphabet.len())]).collect()
        }
        2 => {
            let n = rng.gen_range(0, 40);
            (0..n).map(|_| ['(', ')', ',', 'x', '-'][rng.gen_range(0, 5)]).collect()
        }
        3 => {
            // digits and operators only
            let n = rng.gen_range(0, 30);
            (0..n).map(|_| ['0', '1', '9', '/', '*', ',', '-', '0'][rng.gen_range(0, 8)]).collect()
        }
        4 => {
            // near-grammar with a mutation
            let mut s: Vec<char> = "(-x+1/2, y-1/2)".chars().collect();
            for _ in 0..rng.gen_range(1, 4) {
                let i = rng.gen_range(0, s.len());
                match rng.gen_range(0, 3) {
                    0 => s[i] = any_char(rng, &alphabet),
                    1 => {
                        s.remove(i);
                        if s.is_empty() {
                            s.push(',');
                        }
                    }
                    _ => s.insert(i, any_char(rng, &alphabet)),
                }
            }
            s.into_iter().collect()
        }
        6 if rng.gen_range(0, 8) == 0 => {
            // a long run the parser accepts, then one character it does not (or nothing): an
            // error found far into a component (positions past 2^16, 2^17)
            let unit = ["x+1/2", " ", "+", "-y", "1", "x", "*2", "/3"][rng.gen_range(0, 8)];
            let n = [65_535usize, 65_536, 70_000, 131_072, 200_000][rng.gen_range(0, 5)] / unit.chars().count() + rng.gen_range(0, 3);
            let tail = ["z", "?", "", ")", "\u{e9}"][rng.gen_range(0, 5)];
            match rng.gen_range(0, 3) {
                0 => format!("{}{},y", unit.repeat(n), tail),
                1 => format!("x,{}{}", unit.repeat(n), tail),
                _ => format!("({}{},y)", unit.repeat(n), tail),
            }
        }
        5 => {
            // division by zero, huge digit runs
            ["1/0,x", "x/0,0/0", "99999999999999999999999999,1", "x,y/0", "0/0,0/0", ",", ",,", "", "(", ")", "()", "(,)", "x,", ",y"][rng.gen_range(0, 14)].to_string()
        }
        _ => {
            let n = rng.gen_range(0, 24);
            (0..n).map(|_| alphabet[rng.gen_range(0, alphabet.len())]).collect()
        }
    }
}

pub fn check_arbitrary(s: &str, st: &mut Stats) {
    st.eval();
    match silent_parse(s) {
        Err(p) => {
            let shown: String = s.chars().take(200).collect();
            st.violation(Violation {
                kind: "c17.arbitrary".into(),
                signature: "Transform2::from_operations:panic-on-arbitrary-string".into(),
                case: json!({ "string": s }),
                detail: json!({"panic": p, "string_prefix": shown}),
            })
        }
        Ok(Ok(_)) => st.count("arbitrary_parsed_ok"),
        Ok(Err(_)) => st.count("arbitrary_rejected"),
    }
}

/// every Unicode scalar value of `lo..hi` placed, alone, at each position of a component where
/// the parser is in a different state (start, after a sign, after an operator, as numerator, as
/// denominator, inside parentheses, at the end): whatever a parser does with look-alike digits,
/// fractions, signs or spaces of other scripts, it must answer Ok or Err
pub const SWEEP_TEMPLATES: [&str; 14] = ["x+@,y", "@,y", "x,@", "x,y@", "x+1/@,y", "(@x,y)", "x,-@", "@/2,y", "x@y,y", "zxxxxxx@,y", "x,zyyyyyy@y", "x+\u{bd}y-y@,y", "@z,y", "x,@ z"];
pub fn sweep_codepoints(lo: u32, hi: u32, st: &mut Stats) {
    let mut n = 0u64;
    for cp in lo..hi {
        let c = match std::char::from_u32(cp) {
            Some(c) => c,
            None => continue,
        };
        let mut buf = [0u8; 4];
        let cs: &str = c.encode_utf8(&mut buf);
        for t in SWEEP_TEMPLATES.iter() {
            let s = t.replace('@', cs);
            if let Err(p) = silent_parse(&s) {
                st.eval();
                st.violation(Violation {
                    kind: "c17.arbitrary".into(),
                    signature: "Transform2::from_operations:panic-on-arbitrary-string".into(),
                    case: json!({ "string": s }),
                    detail: json!({"panic": p, "code_point": format!("U+{:04X}", cp), "template": t}),
                });
            }
            n += 1;
        }
    }
    st.add("code_point_placements_parsed", n);
}

pub fn run(ctx: &Ctx) {
    ctx.set_rule("grammar strings are built from (terms, format) descriptions - every non-empty subset of {+-x, +-y, +-p[/q]} in every order, p in 0..9, q in 1..9, in either component against partner components, under 32 spacing/parenthesis/explicit-plus formats (thorough: all; quick: all components x 4 formats + random) - and the parsed map is compared at 6 points with the map the description denotes (1e-15); distinct = distinct strings; plus arbitrary strings (random bytes, unicode, 20k-char, 65k-200k-char runs of accepted characters ending in a rejected one, unbalanced, division by zero) which must return Ok/Err without panicking; plus every one of the 1,112,064 Unicode scalar values placed alone at 9 parser positions (start, after a sign, after an operator, numerator, denominator, inside parentheses, between terms, end) at 3 positions a few bytes after an already rejected character, and at 2 positions directly before one (errors are formatted, as a caller reporting them would)");
    ctx.assume("strings with whitespace outside the outer parentheses, coefficients other than +-1, or more than one constant per component are not taken to be in the grammar");
    let prev = panic::take_hook();
    panic::set_hook(Box::new(|_| {}));
    let comps = all_components(&all_consts());
    let partners: Vec<Vec<Term>> = vec![
        vec![Term::Y { neg: false }],
        vec![Term::X { neg: true }, Term::C { neg: false, p: 1, q: Some(2) }],
        vec![Term::C { neg: true, p: 3, q: Some(4) }, Term::Y { neg: true }, Term::X { neg: false }],
        vec![Term::C { neg: false, p: 0, q: None }],
    ];
    let all_f = fmts();
    let n_fmt_quick = 4usize;
    let ncomp = comps.len() as u64;
    ctx.extra("grammar_components_enumerated", json!(ncomp));
    let shards = 64u64;
    let tier = ctx.tier;
    par_shards(ctx, 17, shards, |i, rng, st| {
        for (ci, c) in comps.iter().enumerate() {
            if ci as u64 % shards != i {
                continue;
            }
            let fsel: Vec<&Fmt> = match tier {
                Tier::Thorough => all_f.iter().collect(),
                Tier::Quick => (0..n_fmt_quick).map(|_| &all_f[rng.gen_range(0, all_f.len())]).collect(),
            };
            for f in fsel {
                let np = tier.pick(2, partners.len());
                for k in 0..np {
                    let p = &partners[(ci + k) % partners.len()];
                    check_grammar(c, p, f, st);
                    check_grammar(p, c, f, st);
                }
            }
        }
        // random pairs of full components
        let nr = tier.pick(2_000u64, 200_000u64);
        for _ in 0..nr {
            let a = &comps[rng.gen_range(0, comps.len())];
            let b = &comps[rng.gen_range(0, comps.len())];
            let f = &all_f[rng.gen_range(0, all_f.len())];
            check_grammar(a, b, f, st);
        }
        // the whole code space, a slice per shard
        let per = (0x110000u32 + shards as u32 - 1) / shards as u32;
        sweep_codepoints(i as u32 * per, ((i as u32 + 1) * per).min(0x110000), st);
        let na = tier.pick(1_000u64, 30_000u64);
        for _ in 0..na {
            let s = arbitrary_string(rng);
            check_arbitrary(&s, st);
        }
    });
    panic::set_hook(prev);
    ctx.set_min_nontrivial(10_000);
}

pub fn replay(ctx: &Ctx, kind: &str, case: &serde_json::Value) {
    let prev = panic::take_hook();
    panic::set_hook(Box::new(|_| {}));
    let mut st = Stats::new();
    if kind == "c17.grammar" {
        let c0: Vec<Term> = serde_json::from_value(case["c0"].clone()).unwrap_or_default();
        let c1: Vec<Term> = serde_json::from_value(case["c1"].clone()).unwrap_or_default();
        if let Ok(f) = serde_json::from_value::<Fmt>(case["fmt"].clone()) {
            check_grammar(&c0, &c1, &f, &mut st);
        }
    } else if let Some(s) = case["string"].as_str() {
        check_arbitrary(s, &mut st);
    }
    panic::set_hook(prev);
    ctx.merge(st);
}
