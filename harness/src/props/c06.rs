//! C06 - a rejected move leaves no trace; the result is the last accepted state.
use packing::traits::State;
use packing::{PackedState, PotentialState};
use rand::Rng;
use serde::{Deserialize, Serialize};
use serde_json::{json, Value};

use super::mc::{self, OptCfg, RunReport, ScriptedCase};
use crate::common::*;
use crate::libx::{self, lib_group, ShapeSpec};
use crate::oracle::groups;

#[derive(Clone, Debug, Serialize, Deserialize)]
pub enum Case {
    Scripted(ScriptedCase),
    Real {
        group: String,
        shape: ShapeSpec,
        lj: bool,
        cfg: OptCfg,
        via_api: bool,
        /// start from these parameters instead of the group's initial state (a later stage of a
        /// pipeline: parameters anywhere in their ranges, also exactly on a bound - where the
        /// range handed to the next stage is empty)
        #[serde(default)]
        start: Option<libx::Params>,
    },
}

pub fn judge(c: &Case, r: &RunReport, st: &mut Stats) {
    st.eval();
    st.add("score_calls_observed", r.monitor.calls as u64);
    st.add("resolved_decisions", r.resolved.len() as u64);
    // what was observed before a panic counts all the same
    if let Some(v) = r.monitor.violations.first() {
        let sig = if v.what.starts_with("returned") { "optimise_state:returned-state-is-not-the-last-accepted-state" } else { "optimise_state:rejected-move-left-a-trace-or-two-parameters-changed" };
        st.violation(Violation { kind: "c06.run".into(), signature: sig.into(), case: serde_json::to_value(c).unwrap(), detail: json!({"what": v.what, "observed": v.detail}) });
        return;
    }
    // A proposal without a defined score - or, at zero temperature, with a worse one - is
    // necessarily rejected.  If it is nevertheless the state the following proposals derive
    // from, the rejected move has left a trace (from the boundary it looks like an acceptance).
    let kt0 = match c {
        Case::Scripted(sc) => sc.cfg.kt_start == 0.,
        Case::Real { cfg, .. } => cfg.kt_start == 0.,
    };
    if let Some(d) = r.resolved.iter().find(|d| d.accepted && (d.new.is_none() || (kt0 && d.new.map(|n| n < d.old).unwrap_or(false)))) {
        st.violation(Violation {
            kind: "c06.run".into(),
            signature: "optimise_state:necessarily-rejected-proposal-persisted".into(),
            case: serde_json::to_value(c).unwrap(),
            detail: json!({"proposal": d.step, "old_score": d.old, "new_score": d.new, "zero_temperature": kt0}),
        });
        return;
    }
    if r.panicked.is_some() {
        st.count("runs_that_panicked(not a C06 event; C20 decides)");
        return;
    }
    let acc = r.resolved.iter().filter(|d| d.accepted).count();
    let rej = r.resolved.len() - acc;
    if acc > 0 && rej > 0 {
        let k = r.monitor.k;
        st.nontrivial(hash64(&[hash_str(&serde_json::to_string(c).unwrap_or_default())]));
        st.count(&format!("runs_by_parameter_count[{}]", if k <= 3 { "1-3" } else if k <= 11 { "4-11" } else { "12-24" }));
    }
    st.add("resolved_accepts", acc as u64);
    st.add("resolved_rejects", rej as u64);
    st.add("zero_length_moves(clamped onto the same value)", r.monitor.zero_moves);
    st.sample(|| json!({"case": c, "calls": r.monitor.calls, "resolved_accepts": acc, "resolved_rejects": rej, "first_calls": r.monitor.first_calls.iter().take(4).collect::<Vec<_>>(), "returned": r.returned}));
}

pub fn check(c: &Case, st: &mut Stats) {
    match c {
        Case::Scripted(sc) => {
            let r = mc::run_scripted(sc, false);
            judge(c, &r, st);
        }
        Case::Real { group, shape, lj, cfg, via_api, start } => {
            let wg = match lib_group(group) {
                Ok(g) => g,
                Err(e) => {
                    st.inconclusive.push(e);
                    return;
                }
            };
            macro_rules! go {
                ($state:expr) => {{
                    match $state {
                        Ok(s0) => {
                            if s0.score().map(|x| x.is_finite()) != Some(true) {
                                st.count("real_initial_state_not_scored(skipped)");
                                return;
                            }
                            let rr = mc::run_real(s0, cfg, None, false, *via_api);
                            judge(c, &rr.report, st);
                        }
                        Err(e) => st.inconclusive.push(e.to_string()),
                    }
                }};
            }
            if let Some(p) = start {
                st.count("real_runs_started_from_given_parameters");
                if *lj {
                    if let Some(s) = shape.lj() {
                        go!(libx::build_potential(s, group, p))
                    }
                } else if let Some(s) = shape.line() {
                    go!(libx::build_packed(s, group, p))
                } else if let Some(s) = shape.mol() {
                    go!(libx::build_packed(s, group, p))
                }
                return;
            }
            if *lj {
                if let Some(s) = shape.lj() {
                    go!(PotentialState::from_group(s, &wg))
                }
            } else if let Some(s) = shape.line() {
                go!(PackedState::from_group(s, &wg))
            } else if let Some(s) = shape.mol() {
                go!(PackedState::from_group(s, &wg))
            }
        }
    }
}

pub fn gen_real<R: Rng>(rng: &mut R) -> Case {
    let kt = mc::rand_kt(rng);
    let mut cfg = mc::rand_cfg(rng, kt, 4000);
    cfg.max_step_size = 10f64.powf(rng.gen_range(-3., 0.));
    let lj = rng.gen_bool(0.4);
    let shape = if lj {
        if rng.gen_bool(0.3) {
            ShapeSpec::Circle
        } else {
            ShapeSpec::Trimer { radius: 0.637556, angle: 120., distance: 1. }
        }
    } else {
        libx::gen::hard_shape(rng)
    };
    let group = groups::NAMES[rng.gen_range(0, 7)].to_string();
    let start = if rng.gen_bool(0.5) {
        use std::f64::consts::PI;
        let copies = groups::group(&group).unwrap().ops.len() as f64;
        let on = |rng: &mut R, lo: f64, hi: f64| match rng.gen_range(0, 4) {
            0 => lo,
            1 => hi,
            _ => rng.gen_range(lo, hi),
        };
        Some(libx::Params {
            // dilute enough for any ratio
            len: if lj { rng.gen_range(3., 8.) * copies.sqrt() } else { rng.gen_range(25., 60.) * copies },
            ratio: on(rng, 0.1, 1.),
            angle: on(rng, PI / 6., PI / 2.),
            x: on(rng, -0.5, 0.5),
            y: on(rng, -0.5, 0.5),
            phi: on(rng, 0., 2. * PI),
        })
    } else {
        None
    };
    Case::Real { group, shape, lj, cfg, via_api: rng.gen_bool(0.3), start }
}

pub fn run(ctx: &Ctx) {
    ctx.set_rule("optimise_state observed call by call: scripted states with k = 1..24 bounded parameters whose scores follow adversarial scripts (all-reject, all-accept, alternating, reject runs of 2..200 then accept, undefined scores, random mixtures at 0/50/75/99/100% rejection), bounds hit on every move (step 1) or never, step sizes NaN / infinite / 0 with ranges whose width overflows, zeros of either sign on zero bounds, all temperatures, steps 1..20000 with one or many inner loops, convergence on/off; and real hard/LJ states of all groups wrapped in a Spy, from the group's initial state and from given parameters anywhere in their ranges or exactly on a bound (where the range of the next stage is empty; scripted states likewise have one empty range in twelve). The trace monitor compares parameter vectors bit for bit: every evaluated vector must differ from some possible current state in at most one parameter, and the returned state must be a possible current state. Non-trivial = runs in which both accepts and rejects were resolved; distinct by case");
    let n_s = ctx.tier.pick(70u64, 3_500u64);
    let n_r = ctx.tier.pick(6u64, 250u64);
    let prev = std::panic::take_hook();
    std::panic::set_hook(Box::new(|_| {}));
    par_shards(ctx, 6, 64, |_, rng, st| {
        for _ in 0..n_s {
            let kt = mc::rand_kt(rng);
            let mut sc = mc::rand_scripted_case(rng, kt, 20_000);
            mc::maybe_start_outside(rng, &mut sc, 0.2);
            if rng.gen_range(0, 25) == 0 {
                // step sizes that are not numbers a move can be made with: whatever the proposal
                // is, a rejected one must leave no trace
                sc.cfg.max_step_size = [f64::NAN, f64::INFINITY, 0., 1e308][rng.gen_range(0, 4)];
                if rng.gen_bool(0.5) && !sc.bounds.is_empty() {
                    // with a range so wide that its width overflows
                    sc.bounds[0] = (-1.5e308, 1.5e308);
                    sc.init[0] = 0.;
                }
            }
            check(&Case::Scripted(sc), st);
        }
        for _ in 0..n_r {
            check(&gen_real(rng), st);
        }
    });
    std::panic::set_hook(prev);
    // sanitizer legs (Miri on the undo mechanism; run by ./check in the thorough tier)
    if let Ok(p) = std::env::var("PV_SAN_SUMMARY") {
        crate::props::san::merge_summary(ctx, &p);
    }
    ctx.set_min_nontrivial(200);
}

pub fn replay(ctx: &Ctx, case: &Value) {
    let prev = std::panic::take_hook();
    std::panic::set_hook(Box::new(|_| {}));
    let mut st = Stats::new();
    if let Ok(c) = serde_json::from_value::<Case>(case.clone()) {
        check(&c, &mut st);
    }
    std::panic::set_hook(prev);
    ctx.merge(st);
}
