//! The library hands its placements and images out as iterators (`impl Iterator`).  "Yields
//! exactly these, each once" is a statement about every way a caller may consume one, not
//! about `collect()` alone: next(), nth(), skip(), step_by(), count(), last(), size_hint() and
//! any mixture of them must walk the same sequence.  The monitor drives a fresh iterator with
//! a random script of such calls against the collected sequence as the model.
use packing::Transform2;
use rand::Rng;

use crate::libx::to_affine;

fn bits(t: &Transform2) -> [u64; 6] {
    let a = to_affine(t);
    [a.m[0][0].to_bits(), a.m[0][1].to_bits(), a.m[1][0].to_bits(), a.m[1][1].to_bits(), a.t[0].to_bits(), a.t[1].to_bits()]
}

/// Returns a description of the first disagreement between the iterator and its model.
/// `make` builds a fresh iterator over the same sequence.
pub fn check<I, F, R>(make: F, rng: &mut R, calls: &mut u64) -> Option<String>
where
    I: Iterator<Item = Transform2>,
    F: Fn() -> I,
    R: Rng,
{
    let model: Vec<[u64; 6]> = make().map(|t| bits(&t)).collect();
    let n = model.len();
    let mut script: Vec<String> = vec![];
    let mut it = make();
    let mut i = 0usize; // elements consumed so far
    let fail = |script: &Vec<String>, what: String| Some(format!("{} after [{}] on a sequence of {}", what, script.join(", "), n));
    for _ in 0..rng.gen_range(1, 6) {
        *calls += 1;
        match rng.gen_range(0, 4) {
            0 => {
                script.push("next()".into());
                let got = it.next().map(|t| bits(&t));
                let want = model.get(i).copied();
                i = (i + 1).min(n);
                if got != want {
                    return fail(&script, format!("next() gave element {:?}, expected element {}", got.and_then(|g| model.iter().position(|m| *m == g)), if want.is_some() { (i - 1).to_string() } else { "None".into() }));
                }
            }
            1 => {
                let k = rng.gen_range(0, n + 2);
                script.push(format!("nth({})", k));
                let got = it.nth(k).map(|t| bits(&t));
                let want = model.get(i + k).copied();
                let at = i + k;
                i = (i + k + 1).min(n);
                if got != want {
                    return fail(&script, format!("nth({}) gave element {:?}, expected {}", k, got.and_then(|g| model.iter().position(|m| *m == g)), if want.is_some() { format!("element {}", at) } else { "None".into() }));
                }
            }
            2 => {
                script.push("size_hint()".into());
                let (lo, hi) = it.size_hint();
                let rem = n - i;
                if lo > rem || hi.map(|h| h < rem).unwrap_or(false) {
                    return fail(&script, format!("size_hint() = ({}, {:?}) with {} elements left", lo, hi, rem));
                }
            }
            _ => {
                let k = rng.gen_range(0, 3);
                script.push(format!("by_ref().take({})", k));
                let got: Vec<[u64; 6]> = it.by_ref().take(k).map(|t| bits(&t)).collect();
                let want: Vec<[u64; 6]> = model.iter().skip(i).take(k).copied().collect();
                i = (i + k).min(n);
                if got != want {
                    return fail(&script, format!("take({}) gave {} elements that are not the next ones", k, got.len()));
                }
            }
        }
    }
    // a consuming call on what is left; every form is bounded by take() where a broken
    // iterator could otherwise go on for ever
    let rest: Vec<[u64; 6]> = model[i.min(n)..].to_vec();
    *calls += 1;
    match rng.gen_range(0, 6) {
        0 => {
            script.push("count()".into());
            let c = it.count();
            if c != rest.len() {
                return fail(&script, format!("count() = {}, {} left", c, rest.len()));
            }
        }
        1 => {
            script.push("last()".into());
            if it.last().map(|t| bits(&t)) != rest.last().copied() {
                return fail(&script, "last() is not the last element".into());
            }
        }
        2 => {
            let s = rng.gen_range(1, 4);
            script.push(format!("step_by({})", s));
            let got: Vec<[u64; 6]> = it.step_by(s).take(n + 3).map(|t| bits(&t)).collect();
            let want: Vec<[u64; 6]> = rest.iter().step_by(s).copied().collect();
            if got != want {
                return fail(&script, format!("step_by({}) gave {} elements, expected {} (every {}th of those left)", s, got.len(), want.len(), s));
            }
        }
        3 => {
            let k = rng.gen_range(0, n + 2);
            script.push(format!("skip({})", k));
            let got: Vec<[u64; 6]> = it.skip(k).take(n + 3).map(|t| bits(&t)).collect();
            let want: Vec<[u64; 6]> = rest.iter().skip(k).copied().collect();
            if got != want {
                return fail(&script, format!("skip({}) gave {} elements, expected {}", k, got.len(), want.len()));
            }
        }
        4 => {
            script.push("fold".into());
            let c = it.fold(0usize, |a, _| a + 1);
            if c != rest.len() {
                return fail(&script, format!("fold visited {} elements, {} left", c, rest.len()));
            }
        }
        _ => {
            script.push("collect()".into());
            let got: Vec<[u64; 6]> = it.take(n + 3).map(|t| bits(&t)).collect();
            if got != rest {
                return fail(&script, format!("collect() gave {} elements, {} left", got.len(), rest.len()));
            }
        }
    }
    None
}
