//! C20 - the optimiser terminates normally and does the amount of work requested.
use rand::Rng;
use serde::{Deserialize, Serialize};
use serde_json::{json, Value};

use super::mc::{self, OptCfg, ScriptedCase};
use crate::common::*;
use crate::observe::cli;
use crate::observe::scripted::Script;
use crate::oracle::xjson;

#[derive(Clone, Debug, Serialize, Deserialize)]
pub enum Case {
    Lib(ScriptedCase),
    Cli {
        pre: Vec<String>,
        pos: Vec<String>,
        unwritable: bool,
        /// how the --outfile path is spelt: 0 plain; 1 a file name that is not UTF-8 (Latin-1
        /// bytes); 2 a directory that is not UTF-8; 3 Unicode and spaces; 4 a 200-character name;
        /// 10-13: plain path, but stdout full / stderr full / stdout's reader gone / both full
        #[serde(default)]
        path_style: u8,
    },
    /// the binary run with one system call on its output files made to fail
    Fault { argv: Vec<String>, syscall: String, errno: String, when: u32 },
}

fn viol(what: &str, c: &Case, detail: Value) -> Violation {
    let site = match c {
        Case::Lib(_) => "optimise_state",
        Case::Cli { .. } | Case::Fault { .. } => "cli",
    };
    Violation { kind: "c20.run".into(), signature: format!("{}:{}", site, what), case: serde_json::to_value(c).unwrap(), detail }
}

fn panic_class(m: &str) -> String {
    let m = m.to_lowercase();
    if m.contains("divide by zero") || m.contains("division by zero") {
        "panic:divide-by-zero".into()
    } else if m.contains("final score is invalid") {
        "panic:final-score-invalid".into()
    } else if m.contains("invalid configuration") {
        "panic:input-state-rejected".into()
    } else {
        format!("panic:{}", m.chars().filter(|c| c.is_ascii_alphanumeric() || *c == ' ').take(40).collect::<String>().replace(' ', "-"))
    }
}

struct Discard;
impl log::Log for Discard {
    fn enabled(&self, _: &log::Metadata) -> bool {
        true
    }
    fn log(&self, r: &log::Record) {
        // format the message (evaluates its arguments), then drop it
        let _ = format!("{}", r.args());
    }
    fn flush(&self) {}
}

/// Library users may run with debug logging on: the arguments of every log statement are
/// evaluated then.  Installed for the library part of this check.
pub fn enable_discarding_logger() {
    static L: Discard = Discard;
    let _ = log::set_logger(&L);
    log::set_max_level(log::LevelFilter::Trace);
}

/// "run until converged": an astronomically large step count with a threshold that ends the run
/// after six loops.  Only the thresholded run can be executed.
fn check_lib_huge(sc: &ScriptedCase, st: &mut Stats) {
    // An allocation failure aborts the process and cannot be caught: run the case in a child.
    if std::env::var("PV_CHILD").is_err() {
        st.eval();
        let c = Case::Lib(sc.clone());
        st.nontrivial(hash_str(&serde_json::to_string(sc).unwrap_or_default()));
        st.count("config[steps=huge]");
        let dir = format!("{}/.build/scratch", crate::common::verif_dir());
        let _ = std::fs::create_dir_all(&dir);
        let path = format!("{}/c20-child-{}-{}.json", dir, std::process::id(), hash_str(&serde_json::to_string(sc).unwrap_or_default()));
        let body = json!({"property": "C20", "kind": "c20.run", "case": c});
        if std::fs::write(&path, serde_json::to_string(&body).unwrap_or_default()).is_err() {
            st.inconclusive.push("cannot write child case file".into());
            return;
        }
        let exe = match std::env::current_exe() {
            Ok(e) => e,
            Err(_) => return,
        };
        let mut child = match std::process::Command::new(exe).args(&["C20", "--replay", &path]).env("PV_CHILD", "1").stdout(std::process::Stdio::piped()).stderr(std::process::Stdio::null()).spawn() {
            Ok(c) => c,
            Err(e) => {
                st.inconclusive.push(format!("cannot spawn child: {}", e));
                return;
            }
        };
        // watchdog: the run is six short loops; a minute is generous
        let t0 = std::time::Instant::now();
        let status = loop {
            match child.try_wait() {
                Ok(Some(s)) => break Some(s),
                Ok(None) => {
                    if t0.elapsed().as_secs() > 120 {
                        let _ = child.kill();
                        let _ = child.wait();
                        break None;
                    }
                    std::thread::sleep(std::time::Duration::from_millis(5));
                }
                Err(_) => break None,
            }
        };
        let mut out = String::new();
        if let Some(mut so) = child.stdout.take() {
            use std::io::Read;
            let _ = so.read_to_string(&mut out);
        }
        let _ = std::fs::remove_file(&path);
        match status {
            None => st.violation(viol("does-not-return-after-the-convergence-exit-is-due", &c, json!({"waited_s": 120, "steps": sc.cfg.steps, "convergence": sc.cfg.convergence}))),
            Some(s) => {
                use std::os::unix::process::ExitStatusExt;
                if let Some(sig) = s.signal() {
                    st.violation(viol("process-aborted", &c, json!({"signal": sig, "steps": sc.cfg.steps, "inner_steps": sc.cfg.inner_steps, "convergence": sc.cfg.convergence, "note": "an abort (e.g. allocation failure) cannot be caught by the caller"})));
                } else if s.code() == Some(1) {
                    let line = out.lines().find(|l| l.contains("violation kind")).unwrap_or("").to_string();
                    let what = line.split("signature=optimise_state:").nth(1).and_then(|r| r.split(' ').next()).unwrap_or("child-reported-violation").to_string();
                    st.violation(viol(&what, &c, json!({"child_output": line.chars().take(600).collect::<String>()})));
                } else if s.code() != Some(0) {
                    st.inconclusive.push(format!("child ended with status {:?}", s.code()));
                }
            }
        }
        return;
    }
    st.eval();
    let c = Case::Lib(sc.clone());
    st.nontrivial(hash_str(&serde_json::to_string(sc).unwrap_or_default()));
    st.count("config[steps=huge]");
    let b = mc::run_scripted(sc, false);
    if let Some(p) = &b.panicked {
        st.violation(viol(&panic_class(p), &c, json!({"panic": p, "steps": sc.cfg.steps, "inner_steps": sc.cfg.inner_steps, "convergence": sc.cfg.convergence})));
        return;
    }
    let inner = sc.cfg.effective_inner();
    let calls = b.monitor.calls as u64;
    // every loop improves by less than the (huge) threshold: exit is due after loop 6
    if calls != 1 + 6 * inner {
        st.violation(viol("convergence-exit-at-the-wrong-loop", &c, json!({"calls": calls, "expected_calls": 1 + 6 * inner})));
    }
}

pub fn check_lib(sc: &ScriptedCase, st: &mut Stats) {
    if sc.cfg.steps > 50_000_000 {
        return check_lib_huge(sc, st);
    }
    st.eval();
    let c = Case::Lib(sc.clone());
    let cfg = &sc.cfg;
    // A: the same run without a convergence threshold; B: as configured
    let mut sa = sc.clone();
    sa.cfg.convergence = None;
    let a = mc::run_scripted(&sa, true);
    if let Some(p) = &a.panicked {
        st.violation(viol(&panic_class(p), &c, json!({"panic": p, "steps": cfg.steps, "inner_steps": cfg.inner_steps})));
        return;
    }
    let inner = cfg.effective_inner();
    let edge = cfg.steps == 0 || cfg.inner_steps == 0 || cfg.inner_steps > cfg.steps || (inner > 0 && cfg.steps % inner != 0);
    if edge || cfg.convergence.is_some() {
        st.nontrivial(hash_str(&serde_json::to_string(sc).unwrap_or_default()));
    }
    st.count(&format!("config[steps={}][inner={}]", if cfg.steps == 0 { "0" } else if cfg.steps < 10 { "1-9" } else { "10+" }, if cfg.inner_steps == 0 { "0" } else if cfg.inner_steps > cfg.steps { ">steps" } else if inner > 0 && cfg.steps % inner != 0 { "non-divisor" } else { "divisor" }));
    // amount of work: calls = 1 (input) + proposals + 1 (final re-evaluation)
    let calls = a.monitor.calls as u64;
    let proposals = calls.saturating_sub(2);
    let lo = if cfg.inner_steps == 0 { 0 } else { cfg.steps - inner.min(cfg.steps) };
    if calls < 2 || proposals > cfg.steps || proposals < lo {
        st.violation(viol("wrong-number-of-proposals", &c, json!({"score_calls": calls, "proposals": proposals, "allowed": [lo, cfg.steps]})));
        return;
    }
    st.add("proposals_observed", proposals);
    if cfg.convergence.is_none() {
        st.sample(|| json!({"case": sc.cfg, "score_calls": calls, "proposals": proposals}));
        return;
    }
    let b = mc::run_scripted(sc, true);
    if let Some(p) = &b.panicked {
        st.violation(viol(&panic_class(p), &c, json!({"panic": p, "with_convergence": cfg.convergence})));
        return;
    }
    // exact prefix
    let nb = b.log.len();
    if nb > a.log.len() || a.log[..nb.min(a.log.len())] != b.log[..] {
        let first = (0..nb.min(a.log.len())).find(|i| a.log[*i] != b.log[*i]);
        st.violation(viol("convergent-run-is-not-a-prefix-of-the-full-run", &c, json!({"calls_full": a.log.len(), "calls_convergent": nb, "first_difference_at_call": first})));
        return;
    }
    let exited_early = nb < a.log.len();
    st.count(if exited_early { "convergent_runs_that_exited_early" } else { "convergent_runs_that_ran_to_the_end" });
    // when is the exit due?  scores at the loop boundaries of the full run
    let prec = cfg.convergence.unwrap();
    let loops = cfg.loops();
    if inner == 0 || loops == 0 {
        return;
    }
    // possible believed scores at each loop boundary (usually one; two when the last decision
    // of the loop cannot be told from the next proposal)
    let mut s: Vec<Vec<f64>> = vec![mc::initial_score(&a).into_iter().collect()];
    for m in 1..=loops {
        let snap = a.monitor.snapshots.iter().find(|(l, _)| *l == m);
        s.push(match snap {
            Some((_, sc)) if !sc.contains(&u64::MAX) => sc.iter().map(|b| f64::from_bits(*b)).collect(),
            _ => vec![],
        });
    }
    let mut count = 0;
    let mut due: Option<u64> = None;
    let mut known = true;
    for m in 1..=loops as usize {
        if s[m - 1].is_empty() || s[m].is_empty() {
            known = false;
            break;
        }
        let mut slow = 0;
        let mut fast = 0;
        for p0 in s[m - 1].iter() {
            for p1 in s[m].iter() {
                if p1 - p0 < prec {
                    slow += 1;
                } else {
                    fast += 1;
                }
            }
        }
        if slow > 0 && fast > 0 {
            known = false;
            break;
        }
        if slow > 0 {
            count += 1;
            if count > 5 {
                due = Some(m as u64);
                break;
            }
        } else {
            count = 0;
        }
    }
    if !known {
        st.count("convergence_rule_not_decidable(ambiguous loop-boundary state)");
        return;
    }
    st.count("convergence_rule_decided");
    let ended_at_loop = if exited_early { Some((nb as u64 - 1) / inner) } else { None };
    // an exit that falls on the very last loop is indistinguishable in effect; compare counts
    let expect_calls = match due {
        Some(m) => 1 + m * inner,
        None => a.log.len() as u64,
    };
    if nb as u64 != expect_calls {
        st.violation(viol(
            "convergence-exit-at-the-wrong-loop",
            &c,
            json!({"threshold": prec, "exit_due_after_loop": due, "run_ended_after_loop": ended_at_loop, "calls": nb, "expected_calls": expect_calls,
                   "possible_scores_at_loop_boundaries": s.iter().take(24).collect::<Vec<_>>() }),
        ));
        return;
    }
    st.sample(|| json!({"case": sc.cfg, "exit_due_after_loop": due, "run_ended_after_loop": ended_at_loop, "loops": loops}));
}

pub fn gen_lib<R: Rng>(rng: &mut R, big: bool) -> ScriptedCase {
    if rng.gen_range(0, 40) == 0 {
        let k = 6;
        return ScriptedCase {
            init: (0..k).map(|_| rng.gen_range(-0.9, 0.9)).collect(),
            bounds: (0..k).map(|_| (-1., 1.)).collect(),
            script: Script::Bowl { centre: (0..k).map(|_| rng.gen_range(-0.5, 0.5)).collect(), wall: None },
            cfg: OptCfg {
                steps: [u64::MAX, u64::MAX / 2, 1u64 << 62, 1u64 << 40][rng.gen_range(0, 4)],
                inner_steps: [1, 10, 1000][rng.gen_range(0, 3)],
                kt_start: [0., 0.1][rng.gen_range(0, 2)],
                kt_finish: [None, Some(1e-3)][rng.gen_range(0, 2)],
                kt_ratio: [None, Some(0.1)][rng.gen_range(0, 2)],
                max_step_size: 0.01,
                seed: rng.gen::<u32>() as u64,
                convergence: Some(1e9),
                builder_history: if rng.gen_bool(0.3) { Some(rng.gen::<u32>() as u64) } else { None },
            },
            via_api: rng.gen_bool(0.4), aliases: vec![], score_offset: 0.,
        };
    }
    let vals: &[u64] = if big { &[0, 1, 2, 3, 7, 999, 1000, 1001, 2500, 100_000] } else { &[0, 1, 2, 3, 7, 999, 1000, 1001, 2500] };
    let steps = vals[rng.gen_range(0, vals.len())];
    let inner = match rng.gen_range(0, 4) {
        0 => vals[rng.gen_range(0, vals.len())],
        1 => (steps / rng.gen_range(2, 40)).max(1),
        2 => rng.gen_range(1, 60),
        _ => steps,
    };
    let k = 6;
    let bounds: Vec<(f64, f64)> = (0..k).map(|_| (-1., 1.)).collect();
    let init: Vec<f64> = (0..k).map(|_| rng.gen_range(-0.9, 0.9)).collect();
    let centre: Vec<f64> = (0..k).map(|_| rng.gen_range(-0.5, 0.5)).collect();
    // thresholds around the improvement per loop of a bowl descent, so that slow and fast
    // loops interleave
    let conv = [None, Some(0.), Some(1e-9), Some(1e-3), Some(1e9), Some(2e-4), Some(1e-5), Some(3e-3)][rng.gen_range(0, 8)];
    ScriptedCase {
        init,
        bounds,
        script: Script::Bowl { centre, wall: if rng.gen_bool(0.3) { Some(0.95) } else { None } },
        cfg: OptCfg {
            steps,
            inner_steps: inner,
            kt_start: [0., 0., 0.001, 0.1, 10.][rng.gen_range(0, 5)],
            kt_finish: [None, Some(0.), Some(1e-3), Some(10.)][rng.gen_range(0, 4)],
            kt_ratio: [None, None, Some(0.), Some(0.1), Some(1.)][rng.gen_range(0, 5)],
            max_step_size: [0.001, 0.01, 0.1, 1.][rng.gen_range(0, 4)],
            seed: rng.gen::<u32>() as u64,
            convergence: conv,
            builder_history: if rng.gen_bool(0.3) { Some(rng.gen::<u32>() as u64) } else { None },
        },
        via_api: rng.gen_bool(0.4), aliases: vec![], score_offset: 0.,
    }
}

// ---------------------------------------------------------------------------------------

pub fn check_cli(ctx_cli: &std::path::Path, tag: &str, pre: &[String], pos: &[String], unwritable: bool, path_style: u8, st: &mut Stats) {
    st.eval();
    let c = Case::Cli { pre: pre.to_vec(), pos: pos.to_vec(), unwritable, path_style };
    let pre_s: Vec<&str> = pre.iter().map(|s| s.as_str()).collect();
    let pos_s: Vec<&str> = pos.iter().map(|s| s.as_str()).collect();
    let out = if unwritable {
        let base = std::path::PathBuf::from(format!("{}/.build/scratch/no-such-directory/deeper/out", crate::common::verif_dir()));
        cli::run_with_outfile(ctx_cli, &base, &pre_s, &pos_s, &[("RAYON_NUM_THREADS", "2".to_string())], 300, true)
    } else if path_style >= 10 {
        // standard streams that cannot be written to (a full device, a reader that has gone)
        st.count(&format!("cli_runs_with_broken_standard_streams[{}]", path_style - 9));
        cli::run_stdio(ctx_cli, tag, &pre_s, &pos_s, &[("RAYON_NUM_THREADS", "2".to_string())], 300, path_style - 9)
    } else if path_style > 0 {
        // any path the file system accepts is a valid --outfile
        use std::os::unix::ffi::OsStringExt;
        let dir = cli::scratch_dir();
        let pid = std::process::id();
        let base = match path_style {
            1 => dir.join(std::ffi::OsString::from_vec([format!("{}-{}-r", tag, pid).as_bytes(), &[0xe9u8][..], b"sultat"].concat())),
            2 => {
                let d = dir.join(std::ffi::OsString::from_vec([format!("{}-{}-M", tag, pid).as_bytes(), &[0xfau8][..], b"sica"].concat()));
                let _ = std::fs::create_dir_all(&d);
                d.join("out")
            }
            3 => dir.join(format!("{}-{} r\u{e9}sultat final \u{2713}", tag, pid)),
            _ => dir.join(format!("{}-{}-{}", tag, pid, "n".repeat(200))),
        };
        st.count(&format!("cli_runs_with_outfile_path_style[{}]", path_style));
        let o = cli::run_with_outfile(ctx_cli, &base, &pre_s, &pos_s, &[("RAYON_NUM_THREADS", "2".to_string())], 300, true);
        if path_style == 2 {
            let _ = std::fs::remove_dir_all(base.parent().unwrap());
        }
        o
    } else {
        cli::run(ctx_cli, tag, &pre_s, &pos_s, &[("RAYON_NUM_THREADS", "2".to_string())], 300)
    };
    st.nontrivial(hash_str(&format!("{:?}{:?}{}", pre, pos, unwritable)));
    if out.timed_out {
        st.inconclusive.push(format!("CLI run exceeded the 300 s watchdog: {:?} {:?}", pre, pos));
        return;
    }
    let tail: String = out.stderr.lines().rev().take(4).collect::<Vec<_>>().join(" | ");
    if out.panicked() {
        let msg = out.stderr.lines().find(|l| l.contains("panicked at")).unwrap_or("").to_string();
        let next = out.stderr.lines().skip_while(|l| !l.contains("panicked at")).nth(1).unwrap_or("").to_string();
        st.violation(viol(&panic_class(&format!("{} {}", msg, next)), &c, json!({"status": out.status, "signal": out.signal, "stderr_tail": tail})));
        return;
    }
    match out.status {
        Some(0) => {
            st.count("cli_exit_0");
            let json_ok = out.json.as_ref().map(|t| xjson::parse(t).is_ok()).unwrap_or(false);
            let svg_ok = out.svg.as_ref().map(|t| t.contains("<svg") && t.trim_end().ends_with("</svg>")).unwrap_or(false);
            if !json_ok || !svg_ok {
                st.violation(viol("exit-0-without-both-output-files", &c, json!({"json_parseable": json_ok, "svg_complete": svg_ok, "stderr_tail": tail})));
                return;
            }
            if let Some(s) = out.final_score_logged() {
                if s.parse::<f64>().map(|x| !x.is_finite()).unwrap_or(true) {
                    st.count("cli_exit_0_with_non_finite_final_score(C08/C10 territory)");
                }
            }
        }
        Some(code) => {
            st.count(&format!("cli_exit_{}", code));
            if path_style >= 10 {
                // (the message, if any, went where it could not be written)
            } else if out.stderr.trim().is_empty() && out.stdout.trim().is_empty() {
                st.violation(viol("non-zero-exit-without-a-message", &c, json!({"status": code})));
                return;
            }
        }
        None => {
            st.violation(viol("killed-by-signal", &c, json!({"stderr_tail": tail})));
            return;
        }
    }
    st.sample(|| json!({"argv": out.argv, "status": out.status, "stderr_tail": tail}));
}

/// Fault enumeration at the process boundary: every system call the binary makes on its two
/// output files (openat, write, close of each) is made to fail in turn (strace syscall
/// injection).  Exit 0 still needs both complete files; a failure needs a message; never a panic.
pub fn check_cli_faults(exe: &std::path::Path, tag: &str, st: &mut Stats) {
    if std::process::Command::new("strace").arg("-V").output().is_err() {
        st.count("fault_enumeration_skipped(strace not available)");
        return;
    }
    let dir = cli::scratch_dir();
    let argvs: Vec<Vec<&str>> = vec![
        vec!["--replications", "2", "--steps", "60", "p2", "polygon", "--sides", "4"],
        vec!["--replications", "1", "--steps", "40", "-p", "LJ", "p2mg", "trimer"],
        vec!["--replications", "2", "--steps", "60", "p1g1", "circle"],
    ];
    for (ai, argv) in argvs.iter().enumerate() {
        for sys in ["openat", "write", "close"].iter() {
            for when in 1..=2u32 {
                for errno in ["ENOSPC", "EIO", "EACCES", "EINTR"].iter() {
                    check_one_fault(exe, tag, ai, &argv.iter().map(|s| s.to_string()).collect::<Vec<_>>(), sys, errno, when, st);
                }
            }
        }
    }
}

pub fn check_one_fault(exe: &std::path::Path, tag: &str, ai: usize, argv: &[String], sys: &str, errno: &str, when: u32, st: &mut Stats) {
    let dir = cli::scratch_dir();
    {
        {
            {
                {
                    st.eval();
                    let base = dir.join(format!("{}-fi-{}-{}-{}-{}-{}", tag, std::process::id(), ai, sys, when, errno));
                    let json_p = base.with_extension("json");
                    let svg_p = base.with_extension("svg");
                    let _ = std::fs::remove_file(&json_p);
                    let _ = std::fs::remove_file(&svg_p);
                    let out = std::process::Command::new("strace")
                        .args(&["-f", "-o", "/dev/null", "-e", "trace=openat,write,close"])
                        .arg("-P").arg(&json_p).arg("-P").arg(&svg_p)
                        .arg("-e").arg(format!("inject={}:error={}:when={}", sys, errno, when))
                        .arg(exe).arg("--outfile").arg(&base).args(argv.iter())
                        .env("RAYON_NUM_THREADS", "2")
                        .output();
                    let out = match out {
                        Ok(o) => o,
                        Err(_) => {
                            st.count("fault_enumeration_run_failed_to_start");
                            return;
                        }
                    };
                    let stderr = String::from_utf8_lossy(&out.stderr).to_string();
                    let c = Case::Fault { argv: argv.to_vec(), syscall: sys.to_string(), errno: errno.to_string(), when };
                    st.nontrivial(hash_str(&format!("{}{}{}{}", ai, sys, when, errno)));
                    st.count(&format!("fault_points[{}#{}]", sys, when));
                    use std::os::unix::process::ExitStatusExt;
                    let tail: String = stderr.lines().rev().take(3).collect::<Vec<_>>().join(" | ");
                    if out.status.code() == Some(101) || stderr.contains("panicked at") || out.status.signal().is_some() {
                        st.violation(viol("panic-under-injected-io-fault", &c, json!({"status": out.status.code(), "stderr_tail": tail})));
                    } else if out.status.code() == Some(0) {
                        let json_ok = std::fs::read_to_string(&json_p).ok().map(|t| xjson::parse(&t).is_ok()).unwrap_or(false);
                        let svg_ok = std::fs::read_to_string(&svg_p).ok().map(|t| t.contains("<svg") && t.trim_end().ends_with("</svg>")).unwrap_or(false);
                        st.count("faults_survived_with_exit_0");
                        if !json_ok || !svg_ok {
                            st.violation(viol("exit-0-with-incomplete-output-under-injected-io-fault", &c, json!({"json_parseable": json_ok, "svg_complete": svg_ok, "stderr_tail": tail})));
                        }
                    } else {
                        st.count("faults_reported_with_message_and_nonzero_exit");
                        if stderr.trim().is_empty() {
                            st.violation(viol("non-zero-exit-without-a-message", &c, json!({"status": out.status.code()})));
                        }
                    }
                    let _ = std::fs::remove_file(&json_p);
                    let _ = std::fs::remove_file(&svg_p);
                }
            }
        }
    }
}

fn sv(v: &[&str]) -> Vec<String> {
    v.iter().map(|s| s.to_string()).collect()
}

pub fn cli_grid<R: Rng>(rng: &mut R, n: usize) -> Vec<(Vec<String>, Vec<String>, bool)> {
    let groups = crate::oracle::groups::NAMES;
    let mut out: Vec<(Vec<String>, Vec<String>, bool)> = vec![];
    // fixed edge cases first
    for (steps, inner) in [("0", "1000"), ("100", "0"), ("0", "0"), ("1", "1"), ("7", "3"), ("50", "1000"), ("1001", "1000")].iter() {
        out.push((sv(&["--replications", "2", "--steps", steps, "--inner-steps", inner]), sv(&["p2", "circle"]), false));
        out.push((sv(&["--replications", "1", "--steps", steps, "--inner-steps", inner, "--kt-finish", "0.001"]), sv(&["p2mg", "polygon", "--sides", "4"]), false));
        out.push((sv(&["--replications", "2", "--steps", steps, "--inner-steps", inner, "--kt-ratio", "0.1", "-p", "LJ"]), sv(&["p1", "trimer"]), false));
    }
    out.push((sv(&["--replications", "0", "--steps", "10"]), sv(&["p2", "circle"]), false));
    out.push((sv(&["--replications", "1", "--steps", "10"]), sv(&["p2", "circle"]), true));
    for s in ["0", "1", "2", "3"].iter() {
        out.push((sv(&["--replications", "1", "--steps", "20"]), sv(&["p1", "polygon", "--sides", s]), false));
    }
    out.push((sv(&["--replications", "1", "--steps", "20", "-p", "LJ"]), sv(&["p1", "polygon", "--sides", "4"]), false));
    out.push((sv(&["--replications", "1", "--steps", "20", "--convergence", "1e9"]), sv(&["p2gg", "trimer"]), false));
    out.push((sv(&["--replications", "3", "--steps", "7000", "--inner-steps", "100", "--convergence", "1e-3", "--kt-start", "0"]), sv(&["p2", "polygon", "--sides", "6"]), false));
    out.push((sv(&["--replications", "1", "--steps", "20"]), sv(&["p3", "circle"]), false));
    // debug / trace logging evaluates every log statement's arguments
    out.push((sv(&["-v", "--replications", "2", "--steps", "0"]), sv(&["p2", "circle"]), false));
    out.push((sv(&["-vv", "--replications", "1", "--steps", "0", "--inner-steps", "0"]), sv(&["p1", "polygon", "--sides", "4"]), false));
    out.push((sv(&["-v", "--replications", "2", "--steps", "30", "--inner-steps", "7", "--convergence", "1e9"]), sv(&["p2mg", "trimer"]), false));
    out.push((sv(&["-vvv", "--replications", "1", "--steps", "10", "-p", "LJ"]), sv(&["p1", "trimer"]), false));
    // "run until converged"
    out.push((sv(&["--replications", "2", "--steps", "18446744073709551615", "--inner-steps", "10", "--convergence", "1e9"]), sv(&["p2", "polygon", "--sides", "4"]), false));
    out.push((sv(&["--replications", "1", "--steps", "18446744073709551615", "--convergence", "1e9", "--kt-ratio", "0.1"]), sv(&["p1", "circle"]), false));
    out.push((sv(&["--replications", "1", "--steps", "4611686018427387904", "--inner-steps", "3", "--convergence", "1e9", "-p", "LJ"]), sv(&["p2", "circle"]), false));
    out.push((sv(&["--replications", "1", "--steps", "-5"]), sv(&["p1", "circle"]), false));
    out.push((sv(&["--replications", "1", "--steps", "20"]), sv(&["p1", "trimer", "--radius", "0.43", "--angle", "64", "--distance", "0.21"]), false));
    out.push((sv(&["--replications", "2", "--steps", "200", "-p", "LJ"]), sv(&["p2", "trimer", "--radius", "1.0", "--distance", "0"]), false));
    // outer discs touching the central one from the inside (radius + distance = 1), several replicas
    out.push((sv(&["--replications", "2", "--steps", "200", "--inner-steps", "50"]), sv(&["p2", "trimer", "--radius", "0.55", "--distance", "0.45"]), false));
    out.push((sv(&["--replications", "3", "--steps", "200", "--inner-steps", "50"]), sv(&["p1", "trimer", "--radius", "0.026", "--distance", "0.974", "--angle", "60"]), false));
    out.push((sv(&["--replications", "8", "--steps", "100", "--inner-steps", "50"]), sv(&["p2gg", "trimer", "--radius", "0.544", "--distance", "0.456", "--angle", "90"]), false));
    // random grid
    while out.len() < n {
        let g = groups[rng.gen_range(0, 7)];
        let lj = rng.gen_bool(0.4);
        let mut pre = vec!["--replications".to_string(), ["0", "1", "3"][rng.gen_range(0, 3)].to_string()];
        let vals = ["0", "1", "2", "3", "7", "999", "1000", "1001", "2500"];
        pre.push("--steps".into());
        pre.push(vals[rng.gen_range(0, vals.len())].into());
        pre.push("--inner-steps".into());
        pre.push(vals[rng.gen_range(0, vals.len())].into());
        pre.push("--kt-start".into());
        pre.push(["0", "0.1", "10"][rng.gen_range(0, 3)].into());
        match rng.gen_range(0, 3) {
            0 => {
                pre.push("--kt-finish".into());
                pre.push(["0", "0.001", "10"][rng.gen_range(0, 3)].into());
            }
            1 => {
                pre.push("--kt-ratio".into());
                pre.push(["0", "0.1", "1"][rng.gen_range(0, 3)].into());
            }
            _ => {}
        }
        if rng.gen_bool(0.4) {
            pre.push("--convergence".into());
            pre.push(["0", "1e-9", "1e-3", "1e9"][rng.gen_range(0, 4)].into());
        }
        if rng.gen_bool(0.15) {
            pre.insert(0, ["-v", "-vv"][rng.gen_range(0, 2)].into());
        }
        if rng.gen_bool(0.3) {
            pre.push("--max-step-size".into());
            pre.push(["0.001", "0.1", "1"][rng.gen_range(0, 3)].into());
        }
        let pos: Vec<String> = if lj {
            pre.push("-p".into());
            pre.push("LJ".into());
            if rng.gen_bool(0.3) {
                sv(&[g, "circle"])
            } else {
                sv(&[g, "trimer"])
            }
        } else {
            match rng.gen_range(0, 3) {
                0 => vec![g.to_string(), "polygon".into(), "--sides".into(), rng.gen_range(3, 9).to_string()],
                1 => sv(&[g, "circle"]),
                _ => sv(&[g, "trimer"]),
            }
        };
        out.push((pre, pos, false));
    }
    out
}

pub fn run(ctx: &Ctx) {
    ctx.set_rule("library: optimise_state on deterministic bowl landscapes (k = 6, optionally with an undefined region) for steps, inner_steps in {0,1,2,3,7,999,1000,1001,2500,(1e5)} incl. non-multiples and inner_steps > steps, temperatures 0..10, all schedule options, convergence in {unset,0,1e-9,1e-5,2e-4,1e-3,3e-3,1e9}; each configuration is run without and with its threshold: no panic, number of proposals (score calls - 2) within [steps - one loop, steps], the convergent run's call log a bit-exact prefix of the full run's, and the exit at exactly the loop the >5-consecutive-slow-loops rule dictates (decided from the scores at loop boundaries of the full run). CLI: the real binary over groups x shapes x potentials x replications {0,1,3} x the same step settings, unwritable output path, output paths that are not UTF-8 (file name, directory), with Unicode and spaces, 200 characters long, standard output / error on a full device or a pipe whose reader has gone, polygon --sides 0..3, polygon -p LJ, unknown group, negative steps: exit 0 needs both parseable files, non-zero needs a message, never a panic (status 101, 'panicked at', signal). Fault enumeration: each of the six system calls on the two output files (openat/write/close of .json and .svg) is made to fail in turn with ENOSPC/EIO/EACCES/EINTR (strace injection), same classification. Non-trivial = edge configurations (0, non-multiples, inner > steps), runs with a threshold, every CLI run; distinct by configuration");
    let n_lib = ctx.tier.pick(50u64, 1_500u64);
    let big = ctx.tier == Tier::Thorough;
    enable_discarding_logger();
    let prev = std::panic::take_hook();
    std::panic::set_hook(Box::new(|_| {}));
    par_shards(ctx, 20, 64, |_, rng, st| {
        for _ in 0..n_lib {
            check_lib(&gen_lib(rng, big), st);
        }
    });
    std::panic::set_hook(prev);
    if let Some(exe) = ctx.args.cli.clone() {
        let n_cli = ctx.tier.pick(110usize, 2_500usize);
        let grid = cli_grid(&mut ctx.rng(2020), n_cli);
        use rayon::prelude::*;
        let seed = ctx.seed;
        let all: Vec<Stats> = grid
            .par_iter()
            .enumerate()
            .map(|(i, (pre, pos, unw))| {
                let mut st = Stats::new();
                let style = if *unw { 0 } else { [0u8, 0, 0, 10, 1, 2, 3, 4, 0, 11, 0, 12, 0, 13, 0, 0][i % 16] };
                check_cli(&exe, &format!("c20-{}-{}", seed, i), pre, pos, *unw, style, &mut st);
                st
            })
            .collect();
        for s in all {
            ctx.merge(s);
        }
        let mut st = Stats::new();
        check_cli_faults(&exe, &format!("c20-{}", seed), &mut st);
        ctx.merge(st);
    } else {
        ctx.inconclusive("packing binary not available (PV_CLI unset)");
    }
    ctx.set_min_nontrivial(200);
}

pub fn replay(ctx: &Ctx, case: &Value) {
    let prev = std::panic::take_hook();
    std::panic::set_hook(Box::new(|_| {}));
    let mut st = Stats::new();
    match serde_json::from_value::<Case>(case.clone()) {
        Ok(Case::Lib(sc)) => check_lib(&sc, &mut st),
        Ok(Case::Cli { pre, pos, unwritable, path_style }) => {
            if let Some(exe) = ctx.args.cli.clone() {
                check_cli(&exe, "c20-replay", &pre, &pos, unwritable, path_style, &mut st)
            }
        }
        Ok(Case::Fault { argv, syscall, errno, when }) => {
            if let Some(exe) = ctx.args.cli.clone() {
                check_one_fault(&exe, "c20-replay", 0, &argv, &syscall, &errno, when, &mut st)
            }
        }
        Err(_) => {}
    }
    std::panic::set_hook(prev);
    ctx.merge(st);
}
