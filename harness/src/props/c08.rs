//! C08 - optimisation keeps parameters in range and the cell in its crystal family.
use std::f64::consts::PI;

use packing::traits::State;
use packing::{PackedState, PotentialState};
use rand::Rng;
use serde::de::DeserializeOwned;
use serde::{Deserialize, Serialize};
use serde_json::{json, Value};

use super::mc::{self, OptCfg};
use crate::common::*;
use crate::libx::{self, lib_group, ShapeSpec};
use crate::oracle::groups;

#[derive(Clone, Debug, Serialize, Deserialize)]
pub enum Case {
    Chain { group: String, shape: ShapeSpec, lj: bool, stages: Vec<OptCfg>, via_clone: bool },
    Initial { group: String, shape: ShapeSpec, lj: bool },
}

fn viol(what: &str, c: &Case, detail: Value) -> Violation {
    Violation { kind: "c08.run".into(), signature: format!("optimise_state:{}", what), case: serde_json::to_value(c).unwrap(), detail }
}

#[derive(Clone, Debug)]
struct Snapshot {
    length: f64,
    ratio: f64,
    angle: f64,
    x: f64,
    y: f64,
    phi: f64,
    family: String,
    name: String,
}

fn snapshot(js: &Value) -> Option<Snapshot> {
    Some(Snapshot {
        length: js["cell"]["length"].as_f64()?,
        ratio: js["cell"]["ratio"].as_f64()?,
        angle: js["cell"]["angle"].as_f64()?,
        x: js["occupied_sites"][0]["x"].as_f64()?,
        y: js["occupied_sites"][0]["y"].as_f64()?,
        phi: js["occupied_sites"][0]["angle"].as_f64()?,
        family: js["cell"]["family"].as_str()?.to_string(),
        name: js["wallpaper"]["name"].as_str()?.to_string(),
    })
}

/// declared range of each free parameter for a stage starting from `s` (order: the basis)
fn declared(s: &Snapshot, oblique: bool) -> Vec<(f64, f64)> {
    let mut d = vec![(0.01, s.length), (0.1, s.ratio)];
    if oblique {
        d.push((PI / 6., PI / 2.));
    }
    d.push((-0.5, 0.5));
    d.push((-0.5, 0.5));
    d.push((0., 2. * PI));
    d
}

/// range check of a stage result against the stage's start
fn result_in_range(start: &Snapshot, end: &Snapshot, oblique: bool) -> Option<String> {
    let within = |v: f64, lo: f64, hi: f64| v >= lo && v <= hi;
    if !within(end.length, 0.01, start.length) {
        return Some(format!("cell length {} outside [0.01, {}]", end.length, start.length));
    }
    if !within(end.ratio, 0.1, start.ratio) {
        return Some(format!("side ratio {} outside [0.1, {}]", end.ratio, start.ratio));
    }
    if oblique {
        if !within(end.angle, PI / 6., PI / 2.) {
            return Some(format!("cell angle {} outside [pi/6, pi/2]", end.angle));
        }
    } else if end.angle.to_bits() != start.angle.to_bits() {
        return Some(format!("cell angle of a non-oblique family changed: {} -> {}", start.angle, end.angle));
    }
    if !within(end.x, -0.5, 0.5) || !within(end.y, -0.5, 0.5) {
        return Some(format!("site coordinates ({}, {}) outside [-1/2, 1/2]", end.x, end.y));
    }
    if !within(end.phi, 0., 2. * PI) {
        return Some(format!("orientation {} outside [0, 2pi]", end.phi));
    }
    if end.family != start.family || end.name != start.name {
        return Some(format!("labels changed: {}/{} -> {}/{}", start.name, start.family, end.name, end.family));
    }
    None
}

fn chain_generic<T>(initial: T, c: &Case, group: &str, stages: &[OptCfg], via_clone: bool, st: &mut Stats)
where
    T: State + DeserializeOwned + 'static,
{
    let oblique = libx::is_oblique(group);
    let mut cur = initial;
    let mut clamped_any = false;
    for (k, cfg) in stages.iter().enumerate() {
        let js0 = match serde_json::to_value(&cur) {
            Ok(j) => j,
            Err(e) => {
                st.inconclusive.push(e.to_string());
                return;
            }
        };
        let start = match snapshot(&js0) {
            Some(s) => s,
            None => {
                st.inconclusive.push("cannot read state JSON".into());
                return;
            }
        };
        // "given a valid state": the stage input must itself be inside the declared ranges
        if !(start.length >= 0.01 && start.ratio >= 0.1 && start.ratio <= 1. && start.x.abs() <= 0.5 && start.y.abs() <= 0.5) {
            st.count("chains_stopped_stage_input_outside_the_declared_ranges(not an event)");
            return;
        }
        let s0 = cur.score();
        if s0.map(|x| x.is_finite()) != Some(true) {
            if k == 0 {
                st.count("chains_skipped_initial_state_not_scored");
            } else {
                st.violation(viol("stage-input-without-finite-score", c, json!({"stage": k, "score": s0})));
            }
            return;
        }
        if cur.generate_basis().len() != libx::expected_dof(group) {
            st.violation(viol("wrong-degrees-of-freedom-for-the-crystal-family", c, json!({"stage": k, "free_parameters": cur.generate_basis().len(), "expected": libx::expected_dof(group), "family": start.family})));
            return;
        }
        let d = match libx::to_basis_order(group, &declared(&start, oblique)) {
            Ok(d) => d,
            Err(e) => {
                st.inconclusive.push(e);
                return;
            }
        };
        let input = if via_clone { cur.clone() } else { cur };
        let rr = mc::run_real(input, cfg, Some(d.clone()), false, false);
        st.add("proposals_range_checked", rr.report.monitor.calls as u64);
        if let Some((i, v)) = rr.out_of_range.first() {
            st.violation(viol("evaluated-state-outside-declared-range", c, json!({"stage": k, "parameter_index": i, "vector": v, "declared_ranges": d})));
            return;
        }
        if let Some(p) = &rr.report.panicked {
            let what = if p.contains("Final score is invalid") { "panic:final-score-invalid" } else { "panic:other" };
            st.violation(viol(what, c, json!({"stage": k, "panic": p, "config": cfg})));
            return;
        }
        let js1 = match rr.result_json {
            Some(j) => j,
            None => {
                st.inconclusive.push("result not serialisable".into());
                return;
            }
        };
        let end = match snapshot(&js1) {
            Some(s) => s,
            None => {
                st.violation(viol("result-json-incomplete", c, json!({"stage": k, "json": js1})));
                return;
            }
        };
        if let Some(why) = result_in_range(&start, &end, oblique) {
            st.violation(viol("returned-state-outside-declared-range", c, json!({"stage": k, "why": why, "start": format!("{:?}", start), "end": format!("{:?}", end)})));
            return;
        }
        // clamped at a bound?
        for (v, (lo, hi)) in [end.length, end.ratio].iter().zip([(0.01, start.length), (0.1, start.ratio)].iter()) {
            if v == lo || v == hi {
                clamped_any = true;
            }
        }
        if end.x.abs() == 0.5 || end.y.abs() == 0.5 || end.phi == 0. || end.phi == 2. * PI {
            clamped_any = true;
        }
        cur = match serde_json::from_value::<T>(js1.clone()) {
            Ok(s) => s,
            Err(e) => {
                st.violation(viol("result-not-deserialisable", c, json!({"stage": k, "error": e.to_string()})));
                return;
            }
        };
        let s1 = cur.score();
        match s1 {
            Some(x) if x.is_finite() => {}
            other => {
                st.violation(viol("returned-score-not-finite-or-undefined", c, json!({"stage": k, "score": format!("{:?}", other), "config": cfg, "result": js1})));
                return;
            }
        }
    }
    st.count(&format!("chains_completed[{}_stages]", stages.len()));
    if clamped_any {
        st.count("chains_with_a_parameter_clamped_at_a_bound");
    }
    if stages.len() >= 2 || clamped_any {
        st.nontrivial(hash_str(&serde_json::to_string(c).unwrap_or_default()));
    }
    st.sample(|| json!({"case": c, "final": serde_json::to_value(&cur).ok().and_then(|j| snapshot(&j)).map(|s| format!("{:?}", s))}));
}

pub fn check(c: &Case, st: &mut Stats) {
    st.eval();
    match c {
        Case::Chain { group, shape, lj, stages, via_clone } => {
            let wg = match lib_group(group) {
                Ok(g) => g,
                Err(e) => {
                    st.inconclusive.push(e);
                    return;
                }
            };
            if *lj {
                if let Some(s) = shape.lj() {
                    match PotentialState::from_group(s, &wg) {
                        Ok(s0) => chain_generic(s0, c, group, stages, *via_clone, st),
                        Err(e) => st.inconclusive.push(e.to_string()),
                    }
                }
            } else if let Some(s) = shape.line() {
                match PackedState::from_group(s, &wg) {
                    Ok(s0) => chain_generic(s0, c, group, stages, *via_clone, st),
                    Err(e) => st.inconclusive.push(e.to_string()),
                }
            } else if let Some(s) = shape.mol() {
                match PackedState::from_group(s, &wg) {
                    Ok(s0) => chain_generic(s0, c, group, stages, *via_clone, st),
                    Err(e) => st.inconclusive.push(e.to_string()),
                }
            }
        }
        Case::Initial { group, shape, lj } => {
            let wg = match lib_group(group) {
                Ok(g) => g,
                Err(e) => {
                    st.inconclusive.push(e);
                    return;
                }
            };
            st.nontrivial(hash_str(&serde_json::to_string(c).unwrap_or_default()));
            let (score, js): (Option<f64>, Option<Value>) = if *lj {
                match shape.lj().map(|s| PotentialState::from_group(s, &wg)) {
                    Some(Ok(s)) => (s.score(), serde_json::to_value(&s).ok()),
                    _ => return,
                }
            } else if let Some(s) = shape.line() {
                match PackedState::from_group(s, &wg) {
                    Ok(s) => (s.score(), serde_json::to_value(&s).ok()),
                    _ => return,
                }
            } else if let Some(s) = shape.mol() {
                // "any shape of well-defined area": skip shapes whose library area is not a
                // finite positive number
                use packing::traits::Intersect;
                let a = s.area();
                if !(a.is_finite() && a > 0.) {
                    st.count("initial_states_skipped_shape_area_not_finite");
                    return;
                }
                match PackedState::from_group(s, &wg) {
                    Ok(s) => (s.score(), serde_json::to_value(&s).ok()),
                    _ => return,
                }
            } else {
                return;
            };
            match score {
                Some(x) if x.is_finite() => {}
                other => {
                    st.violation(viol("initial-state-not-valid", c, json!({"score": format!("{:?}", other)})));
                    return;
                }
            }
            if let Some(s) = js.as_ref().and_then(snapshot) {
                let or = groups::group(group).unwrap();
                let within = s.length >= 0.01 && s.ratio >= 0.1 && s.ratio <= 1. && s.x.abs() <= 0.5 && s.y.abs() <= 0.5 && s.phi >= 0. && s.phi <= 2. * PI && s.angle >= PI / 6. && s.angle <= PI / 2. + 1e-15;
                if !within || s.family != or.family {
                    st.violation(viol("initial-state-outside-declared-range", c, json!({"snapshot": format!("{:?}", s), "expected_family": or.family})));
                    return;
                }
            }
            st.count("initial_states_valid");
        }
    }
}

pub fn gen_chain<R: Rng>(rng: &mut R) -> Case {
    let lj = rng.gen_bool(0.4);
    let shape = if lj {
        if rng.gen_bool(0.3) {
            ShapeSpec::Circle
        } else {
            libx::gen::trimer(rng)
        }
    } else if rng.gen_range(0, 6) == 0 {
        // shapes of any size: tiny ones put the cell length next to its lower bound of 0.01
        let scale = 10f64.powf(rng.gen_range(-3.3, -1.3));
        ShapeSpec::Radial { radii: vec![scale; rng.gen_range(3, 8)] }
    } else {
        libx::gen::hard_shape(rng)
    };
    let n = rng.gen_range(1, 5);
    let mut stages = vec![];
    for _ in 0..n {
        let kt = mc::rand_kt(rng);
        let mut cfg = mc::rand_cfg(rng, kt, 3000);
        // steps above 1 are accepted by the CLI and the builder: a proposal may then overshoot the
        // range by several of its widths, and must still come back inside it
        cfg.max_step_size = [0.001, 0.01, 0.1, 0.5, 1., 3., 8., 50.][rng.gen_range(0, 8)];
        stages.push(cfg);
    }
    Case::Chain { group: groups::NAMES[rng.gen_range(0, 7)].to_string(), shape, lj, stages, via_clone: rng.gen_bool(0.5) }
}

/// User-defined groups (WallpaperGroup is a public struct): the cell a state gets, and keeps
/// through optimisation, is of the family the group declares - whatever the group is called.
pub fn check_user_group(seed: u64, st: &mut Stats) {
    use packing::CrystalFamily;
    st.eval();
    let mut rng = crate::common::rng_for(seed, 808);
    let name = ["p1", "p2", "p2mm", "P2", "p4", "my group", "p2mg", "p1m1", "pg", ""][rng.gen_range(0, 10)];
    let (family, fname) = [(CrystalFamily::Monoclinic, "Monoclinic"), (CrystalFamily::Orthorhombic, "Orthorhombic"), (CrystalFamily::Tetragonal, "Tetragonal"), (CrystalFamily::Hexagonal, "Hexagonal")][rng.gen_range(0, 4)];
    // p1 and p2 are compatible with every lattice
    let ops: Vec<&str> = if rng.gen_bool(0.5) { vec!["x,y"] } else { vec!["x,y", "-x,-y"] };
    let g = packing::WallpaperGroup { name, family, wyckoff_str: ops.clone() };
    let lj = rng.gen_bool(0.3);
    let sides = rng.gen_range(3, 8);
    let case = json!({"user_group": {"name": name, "family": fname, "operations": ops}, "lj": lj, "sides": sides, "seed": seed});
    let free_cell = match fname {
        "Monoclinic" => 3,
        "Orthorhombic" => 2,
        _ => 1,
    };
    let v = |what: &str, detail: Value| Violation { kind: "c08.usergroup".into(), signature: format!("from_group:{}", what), case: json!({ "user_group_seed": seed }), detail: json!({"case": case, "observed": detail}) };
    macro_rules! go {
        ($state:expr) => {{
            let s0 = match $state {
                Ok(s) => s,
                Err(_) => return,
            };
            let js0 = match serde_json::to_value(&s0) {
                Ok(j) => j,
                Err(_) => return,
            };
            st.nontrivial(hash64(&[808, seed]));
            st.count(&format!("user_groups[{}]", fname));
            let fam0 = js0["cell"]["family"].as_str().unwrap_or("").to_string();
            let wfam0 = js0["wallpaper"]["family"].as_str().unwrap_or("").to_string();
            if fam0 != fname || wfam0 != fname {
                st.violation(v("cell-not-of-the-family-the-group-declares", json!({"cell_family": fam0, "wallpaper_family": wfam0})));
                return;
            }
            if s0.generate_basis().len() != free_cell + 3 {
                st.violation(v("wrong-degrees-of-freedom-for-the-crystal-family", json!({"free_parameters": s0.generate_basis().len(), "expected": free_cell + 3})));
                return;
            }
            if s0.score().map(|x| x.is_finite()) != Some(true) {
                return;
            }
            let mut b = packing::BuildOptimiser::default();
            b.steps(rng.gen_range(50, 600)).inner_steps(100).kt_start([0., 0.1][rng.gen_range(0, 2)]).kt_ratio(Some(0.1)).max_step_size([0.01, 0.2][rng.gen_range(0, 2)]).seed(seed);
            let out = match std::panic::catch_unwind(std::panic::AssertUnwindSafe(|| serde_json::to_value(&b.build().optimise_state(s0)))) {
                Ok(Ok(j)) => j,
                _ => return,
            };
            let f = |j: &Value, k: &str| j["cell"][k].as_f64().map(f64::to_bits);
            let fixed: Vec<&str> = match fname {
                "Monoclinic" => vec![],
                "Orthorhombic" => vec!["angle"],
                _ => vec!["angle", "ratio"],
            };
            for k in fixed {
                if f(&js0, k) != f(&out, k) {
                    st.violation(v("a-cell-parameter-the-family-fixes-has-moved", json!({"parameter": k, "before": js0["cell"][k], "after": out["cell"][k]})));
                    return;
                }
            }
            if out["cell"]["family"] != js0["cell"]["family"] || out["wallpaper"]["family"] != js0["wallpaper"]["family"] || out["wallpaper"]["name"] != js0["wallpaper"]["name"] {
                st.violation(v("labels-changed-by-optimisation", json!({"before": js0["wallpaper"], "after": out["wallpaper"]})));
            }
        }};
    }
    if lj {
        go!(PotentialState::from_group(packing::LJShape2::circle(), &g))
    } else if let Ok(shape) = packing::LineShape::polygon(sides) {
        go!(PackedState::from_group(shape, &g))
    }
}

pub fn run(ctx: &Ctx) {
    ctx.set_rule("chains of 1..4 optimisation stages (temperatures 0..1e6, steps 1..3000 with one or many loops, max_step 0.001..50 (above 1: proposals overshoot the range by several widths), convergence on/off, directly and via clone()) on hard and LJ states of all 7 groups x polygons/circle/trimers; the result of each stage is serialised, re-read and fed to the next. Checked per stage with ranges re-derived from the stage's own start (cell length in [0.01, start], ratio in [0.1, start], oblique angle in [pi/6, pi/2] else bit-identical, x,y in [-1/2,1/2], orientation in [0,2pi]): every state the optimiser evaluates (Spy), the returned state, unchanged group/family labels, number of free parameters of the family, a finite defined score of the re-read result, no panic. Plus user-defined groups (any name, table names included; any of the four families; p1 or p2 operations): the state's cell and labels are of the family the group declares, the family's number of free parameters, and the parameters the family fixes are bit-identical after an optimisation. Plus validity of the from_group state for every group x shape (polygons 3..64, circle, trimers with finite positive area) x potential. Non-trivial = chains of >= 2 stages or with a parameter clamped at a bound, and every initial-state case; distinct by case");
    let n = ctx.tier.pick(24u64, 900u64);
    let prev = std::panic::take_hook();
    std::panic::set_hook(Box::new(|_| {}));
    par_shards(ctx, 8, 64, |i, rng, st| {
        for _ in 0..n {
            check(&gen_chain(rng), st);
        }
        for _ in 0..n {
            check_user_group(rng.gen(), st);
        }
        // initial states: every group x a sweep of shapes, spread over the shards
        for (gi, g) in groups::NAMES.iter().enumerate() {
            for sides in 3..=64usize {
                if (gi * 100 + sides) as u64 % 64 == i {
                    check(&Case::Initial { group: g.to_string(), shape: ShapeSpec::Polygon { sides }, lj: false }, st);
                }
            }
            for _ in 0..4 {
                let t = libx::gen::trimer(rng);
                check(&Case::Initial { group: g.to_string(), shape: t.clone(), lj: false }, st);
                check(&Case::Initial { group: g.to_string(), shape: t, lj: true }, st);
            }
            if i == 0 {
                check(&Case::Initial { group: g.to_string(), shape: ShapeSpec::Circle, lj: false }, st);
                check(&Case::Initial { group: g.to_string(), shape: ShapeSpec::Circle, lj: true }, st);
            }
        }
    });
    std::panic::set_hook(prev);
    ctx.set_min_nontrivial(500);
}

pub fn replay(ctx: &Ctx, case: &Value) {
    let prev = std::panic::take_hook();
    std::panic::set_hook(Box::new(|_| {}));
    let mut st = Stats::new();
    if let Some(seed) = case["user_group_seed"].as_u64() {
        check_user_group(seed, &mut st);
    } else if let Ok(c) = serde_json::from_value::<Case>(case.clone()) {
        check(&c, &mut st);
    }
    std::panic::set_hook(prev);
    ctx.merge(st);
}
