//! Shared machinery for the Monte-Carlo control-flow properties (C05 C06 C07 C08 C18 C19 C20):
//! optimiser configurations, runs of `optimise_state` on Scripted and Spy-wrapped real states
//! under catch_unwind, with the trace monitor attached.
use std::panic::{catch_unwind, AssertUnwindSafe};
use std::sync::{Arc, Mutex};

use packing::traits::State;
use packing::BuildOptimiser;
use rand::Rng;
use serde::{Deserialize, Serialize};
use structopt::StructOpt;

use crate::observe::scripted::{Script, ScriptSink, Scripted};
use crate::observe::spy::{params_of, Sink, Spy};
use crate::observe::trace::{Decision, TraceMonitor};

#[derive(Clone, Debug, Serialize, Deserialize, PartialEq)]
pub struct OptCfg {
    pub steps: u64,
    pub inner_steps: u64,
    pub kt_start: f64,
    pub kt_finish: Option<f64>,
    pub kt_ratio: Option<f64>,
    pub max_step_size: f64,
    pub seed: u64,
    pub convergence: Option<f64>,
    /// Some(h): the builder is not configured once but lives through a history of setter calls
    /// (derived from h and the settings above, see `history_calls`) whose last call per setting
    /// carries the value above - a builder reused from run to run, as the CLI reuses its own
    #[serde(default, skip_serializing_if = "Option::is_none")]
    pub builder_history: Option<u64>,
}

#[derive(Clone, Debug)]
pub enum BuilderCall {
    Steps(u64),
    Inner(u64),
    KtStart(f64),
    KtFinish(f64),
    KtRatio(Option<f64>),
    MaxStep(f64),
    Seed(u64),
    Conv(Option<f64>),
    CloneIt,
    Build,
}

impl OptCfg {
    /// The setter calls of the builder's history, in order.  Per setting: zero or more earlier
    /// values, then the configured one; the settings are interleaved at random, so a setting's
    /// last call may be followed by any number of calls of the others.
    pub fn history_calls(&self) -> Vec<BuilderCall> {
        use BuilderCall::*;
        let h = match self.builder_history {
            None => return vec![],
            Some(h) => h,
        };
        let mut rng = crate::common::rng_for(h, 7707);
        let mut queues: Vec<Vec<BuilderCall>> = vec![];
        let mut q = vec![];
        for _ in 0..rng.gen_range(1, 4) {
            q.push(Steps(match rng.gen_range(0, 5) {
                0 => rng.gen_range(0, self.inner_steps.max(1)),
                1 => 0,
                2 => self.steps.saturating_add(rng.gen_range(1, 5000)),
                3 => [1u64, 2, 20, 100][rng.gen_range(0, 4)],
                _ => rng.gen_range(1, 5000),
            }));
        }
        q.push(Steps(self.steps));
        queues.push(q);
        if rng.gen_bool(0.5) {
            let mut q = vec![];
            for _ in 0..rng.gen_range(0, 3) {
                q.push(Inner([0u64, 1, 7, 1000, 100_000][rng.gen_range(0, 5)]));
            }
            q.push(Inner(self.inner_steps));
            queues.push(q);
        }
        if rng.gen_bool(0.4) {
            queues.push(vec![KtStart([0., 1e-3, 0.1, 50.][rng.gen_range(0, 4)]), KtStart(self.kt_start)]);
        }
        if let (Some(f), true) = (self.kt_finish, rng.gen_bool(0.4)) {
            queues.push(vec![KtFinish([0., 1e-6, 5.][rng.gen_range(0, 3)]), KtFinish(f)]);
        }
        if rng.gen_bool(0.4) {
            queues.push(vec![KtRatio([None, Some(0.), Some(0.3), Some(1.)][rng.gen_range(0, 4)]), KtRatio(self.kt_ratio)]);
        }
        if rng.gen_bool(0.4) {
            queues.push(vec![MaxStep([0., 1e-5, 0.5, 1.][rng.gen_range(0, 4)]), MaxStep(self.max_step_size)]);
        }
        if rng.gen_bool(0.4) {
            queues.push(vec![Seed(rng.gen()), Seed(self.seed)]);
        }
        if rng.gen_bool(0.4) {
            queues.push(vec![Conv([None, Some(0.), Some(1e9)][rng.gen_range(0, 3)]), Conv(self.convergence)]);
        }
        let mut out = vec![];
        while !queues.is_empty() {
            let i = rng.gen_range(0, queues.len());
            out.push(queues[i].remove(0));
            if queues[i].is_empty() {
                queues.remove(i);
            }
            match rng.gen_range(0, 8) {
                0 => out.push(CloneIt),
                1 => out.push(Build),
                _ => {}
            }
        }
        out
    }
    fn apply_history(&self, mut b: BuildOptimiser) -> BuildOptimiser {
        for c in self.history_calls() {
            match c {
                BuilderCall::Steps(v) => {
                    b.steps(v);
                }
                BuilderCall::Inner(v) => {
                    b.inner_steps(v);
                }
                BuilderCall::KtStart(v) => {
                    b.kt_start(v);
                }
                BuilderCall::KtFinish(v) => {
                    b.kt_finish(v);
                }
                BuilderCall::KtRatio(v) => {
                    b.kt_ratio(v);
                }
                BuilderCall::MaxStep(v) => {
                    b.max_step_size(v);
                }
                BuilderCall::Seed(v) => {
                    b.seed(v);
                }
                BuilderCall::Conv(v) => {
                    b.convergence(v);
                }
                BuilderCall::CloneIt => b = b.clone(),
                BuilderCall::Build => {
                    // (a throw-away optimiser for whatever the builder holds at this point; if
                    // building it panics, that is a matter for the run that asks for such settings)
                    let _ = catch_unwind(AssertUnwindSafe(|| {
                        let _ = b.build();
                    }));
                }
            }
        }
        b
    }
    /// Built through the CLI's own argument parser (the only way to leave kt_finish unset),
    /// then seeded.
    pub fn builder(&self) -> Result<BuildOptimiser, String> {
        let mut args: Vec<String> = vec!["optimiser".into()];
        // (--key=value: a negative number must not be taken for an option)
        let mut push = |k: &str, v: String| {
            args.push(format!("{}={}", k, v));
        };
        push("--steps", self.steps.to_string());
        push("--inner-steps", self.inner_steps.to_string());
        push("--kt-start", format!("{:e}", self.kt_start));
        if let Some(f) = self.kt_finish {
            push("--kt-finish", format!("{:e}", f));
        }
        if let Some(r) = self.kt_ratio {
            push("--kt-ratio", format!("{:e}", r));
        }
        push("--max-step-size", format!("{:e}", self.max_step_size));
        if let Some(c) = self.convergence {
            push("--convergence", format!("{:e}", c));
        }
        let mut b = BuildOptimiser::from_iter_safe(args.iter()).map_err(|e| e.to_string())?;
        b.seed(self.seed);
        Ok(self.apply_history(b))
    }
    /// Same configuration through the builder methods (kt_finish cannot be unset this way)
    pub fn builder_api(&self) -> BuildOptimiser {
        let mut b = BuildOptimiser::default();
        b.steps(self.steps).inner_steps(self.inner_steps).kt_start(self.kt_start).kt_ratio(self.kt_ratio).max_step_size(self.max_step_size).seed(self.seed).convergence(self.convergence);
        if let Some(f) = self.kt_finish {
            b.kt_finish(f);
        }
        self.apply_history(b)
    }
    pub fn effective_inner(&self) -> u64 {
        self.inner_steps.min(self.steps)
    }
    /// number of inner loops the run is expected to have (0 when steps or inner is 0)
    pub fn loops(&self) -> u64 {
        let i = self.effective_inner();
        if i == 0 {
            0
        } else {
            self.steps / i
        }
    }
}

struct NullSink;
impl ScriptSink for NullSink {
    fn on_score(&mut self, _call: u64, _v: &[f64], _score: Option<f64>, _label: char) {}
}

/// `optimise_state(&self, ..)` takes the optimiser by reference: the same optimiser may have
/// run before (the CLI runs one per stage over every replica).  With a builder history whose
/// number is a multiple of three, the optimiser first runs on an unrelated state.
fn used_before(cfg: &OptCfg, opt: &packing::MCOptimiser) {
    match cfg.builder_history {
        Some(h) if h % 3 == 0 && cfg.steps <= 20_000 => {
            let sink: Arc<Mutex<dyn ScriptSink>> = Arc::new(Mutex::new(NullSink));
            let decoy = Scripted::new(&[0.3, -0.2], &[(-1., 1.), (-1., 1.)], Script::Bowl { centre: vec![0.1, 0.1], wall: Some(0.9) }, sink);
            let _ = catch_unwind(AssertUnwindSafe(|| {
                let _ = opt.optimise_state(decoy);
            }));
        }
        _ => {}
    }
}

pub struct RunReport {
    pub monitor: TraceMonitor,
    /// label of each score() call of a scripted run (I initial, B E W N A P S L)
    pub labels: Vec<char>,
    pub panicked: Option<String>,
    pub returned: Option<Vec<f64>>,
    pub returned_score: Option<Option<f64>>,
    pub resolved: Vec<Decision>,
    /// every call, when requested (bit patterns of the vector, score)
    pub log: Vec<(Vec<u64>, Option<f64>)>,
}

struct ScriptedSinkImpl {
    mon: TraceMonitor,
    labels: Vec<char>,
    log: Vec<(Vec<u64>, Option<f64>)>,
    keep_log: bool,
}

impl ScriptSink for ScriptedSinkImpl {
    fn on_score(&mut self, _call: u64, v: &[f64], score: Option<f64>, label: char) {
        self.labels.push(label);
        if self.keep_log {
            self.log.push((v.iter().map(|x| x.to_bits()).collect(), score));
        }
        self.mon.on_call(v, score);
    }
}

fn panic_message(e: Box<dyn std::any::Any + Send>) -> String {
    if let Some(m) = e.downcast_ref::<String>() {
        m.clone()
    } else if let Some(m) = e.downcast_ref::<&str>() {
        m.to_string()
    } else {
        "panic".to_string()
    }
}

#[derive(Clone, Debug, Serialize, Deserialize)]
pub struct ScriptedCase {
    pub init: Vec<f64>,
    pub bounds: Vec<(f64, f64)>,
    pub script: Script,
    pub cfg: OptCfg,
    pub via_api: bool,
    /// parameters handed out a second time by generate_basis(): (index, fraction of its range
    /// the extra handle may use) - the type allows several handles on one value, e.g. a coarse
    /// and a fine one, or a parameter listed twice to be moved more often
    #[serde(default)]
    pub aliases: Vec<(usize, f64)>,
    /// added to every score the script hands out (0 by default): 1, 1e6, -3e-5: a ladder of
    /// gaps of one ulp of that value; -inf / +inf: every score infinite, every proposal a tie
    #[serde(default)]
    pub score_offset: f64,
}

pub fn run_scripted(c: &ScriptedCase, keep_log: bool) -> RunReport {
    let k = c.init.len();
    let mut mon = TraceMonitor::new(k);
    mon.ranges = Some(c.bounds.clone());
    if keep_log {
        mon.snapshot_every = Some(c.cfg.effective_inner());
    }
    let sink = Arc::new(Mutex::new(ScriptedSinkImpl { mon, labels: vec![], log: vec![], keep_log }));
    let dynsink: Arc<Mutex<dyn ScriptSink>> = sink.clone();
    let mut state = Scripted::new(&c.init, &c.bounds, c.script.clone(), dynsink);
    state.aliases = c.aliases.clone();
    state.offset = c.score_offset;
    let builder = if c.via_api { Ok(c.cfg.builder_api()) } else { c.cfg.builder() };
    let res = match builder {
        Err(e) => Err(format!("configuration rejected by the argument parser: {}", e)),
        Ok(b) => catch_unwind(AssertUnwindSafe(|| {
            let opt = b.build();
            used_before(&c.cfg, &opt);
            let out = opt.optimise_state(state);
            // (one value per parameter: extra handles on the same parameter come last)
            let mut v = params_of(&out);
            v.truncate(k);
            v
        }))
        .map_err(panic_message),
    };
    let mut g = sink.lock().unwrap();
    let mut mon = std::mem::replace(&mut g.mon, TraceMonitor::new(k));
    let labels = std::mem::take(&mut g.labels);
    let log = std::mem::take(&mut g.log);
    drop(g);
    let (panicked, returned) = match res {
        Ok(v) => {
            mon.check_returned(&v);
            (None, Some(v))
        }
        Err(m) => (Some(m), None),
    };
    let resolved = std::mem::take(&mut mon.resolved);
    RunReport { monitor: mon, labels, panicked, returned, returned_score: None, resolved, log }
}

struct SpySinkImpl {
    mon: TraceMonitor,
    log: Vec<(Vec<u64>, Option<f64>)>,
    keep_log: bool,
    /// declared range of every free parameter, checked on every evaluation
    declared: Option<Vec<(f64, f64)>>,
    out_of_range: Vec<(usize, Vec<f64>)>,
}

impl<S: State> Sink<S> for SpySinkImpl {
    fn on_score(&mut self, _inner: &S, v: &[f64], score: Option<f64>) {
        if self.keep_log {
            self.log.push((v.iter().map(|x| x.to_bits()).collect(), score));
        }
        if let Some(d) = &self.declared {
            for (i, (x, (lo, hi))) in v.iter().zip(d.iter()).enumerate() {
                if !(*x >= *lo && *x <= *hi) && self.out_of_range.len() < 4 {
                    self.out_of_range.push((i, v.to_vec()));
                }
            }
        }
        self.mon.on_call(v, score);
    }
}

pub struct RealReport {
    pub report: RunReport,
    pub out_of_range: Vec<(usize, Vec<f64>)>,
    pub result_json: Option<serde_json::Value>,
}

/// Run one optimisation of a real state observed through a Spy.
pub fn run_real<S: State + 'static>(state: S, cfg: &OptCfg, declared: Option<Vec<(f64, f64)>>, keep_log: bool, via_api: bool) -> RealReport {
    let k = state.generate_basis().len();
    let mut mon = TraceMonitor::new(k);
    mon.ranges = declared.clone();
    let sink = Arc::new(Mutex::new(SpySinkImpl { mon, log: vec![], keep_log, declared, out_of_range: vec![] }));
    let dynsink: Arc<Mutex<dyn Sink<S>>> = sink.clone();
    let spy = Spy::new(state, dynsink);
    let builder = if via_api { Ok(cfg.builder_api()) } else { cfg.builder() };
    let res = match builder {
        Err(e) => Err(format!("configuration rejected by the argument parser: {}", e)),
        Ok(b) => catch_unwind(AssertUnwindSafe(|| {
            let opt = b.build();
            used_before(cfg, &opt);
            let out = opt.optimise_state(spy);
            let v = params_of(&out);
            // NB: Serialize first; score() on the result would add one more observed call
            let js = serde_json::to_value(&out).ok();
            (v, js)
        }))
        .map_err(panic_message),
    };
    let mut g = sink.lock().unwrap();
    let mut mon = std::mem::replace(&mut g.mon, TraceMonitor::new(k));
    let log = std::mem::take(&mut g.log);
    let oor = std::mem::take(&mut g.out_of_range);
    drop(g);
    let (panicked, returned, js) = match res {
        Ok((v, js)) => {
            mon.check_returned(&v);
            (None, Some(v), js)
        }
        Err(m) => (Some(m), None, None),
    };
    let resolved = std::mem::take(&mut mon.resolved);
    RealReport { report: RunReport { monitor: mon, labels: vec![], panicked, returned, returned_score: None, resolved, log }, out_of_range: oor, result_json: js }
}

/// believed score of the returned state according to the monitor (None when ambiguous)
pub fn believed_final_score(r: &RunReport) -> Option<f64> {
    let ret = r.returned.as_ref()?;
    let bits: Vec<u64> = ret.iter().map(|x| x.to_bits()).collect();
    let c: Vec<Option<f64>> = r
        .monitor
        .candidates()
        .into_iter()
        .filter(|(v, _)| v.iter().map(|x| x.to_bits()).collect::<Vec<_>>() == bits)
        .map(|(_, s)| s)
        .collect();
    if c.is_empty() {
        return None;
    }
    let first = c[0];
    if c.iter().all(|s| s.map(f64::to_bits) == first.map(f64::to_bits)) {
        first
    } else {
        None
    }
}

pub fn initial_score(r: &RunReport) -> Option<f64> {
    r.monitor.initial.as_ref().and_then(|(_, s)| *s)
}

/// random optimiser configuration over the whole space (temperatures chosen by the caller)
pub fn rand_cfg<R: Rng>(rng: &mut R, kt_start: f64, max_steps: u64) -> OptCfg {
    let steps = match rng.gen_range(0, 6) {
        0 => rng.gen_range(1, 20),
        1 => [999, 1000, 1001, 2500][rng.gen_range(0, 4)].min(max_steps),
        _ => rng.gen_range(1, max_steps.max(2)),
    };
    let inner_steps = match rng.gen_range(0, 6) {
        // loops of a handful of proposals: the per-loop bookkeeping (cooling, step adaptation,
        // convergence) runs hundreds of times in one run
        5 => [1u64, 1, 2, 3, 4, 7][rng.gen_range(0, 6)],
        0 => steps,
        1 => rng.gen_range(1, steps + 1),
        2 => (steps / rng.gen_range(2, 60)).max(1),
        3 => steps + rng.gen_range(1, 1000),
        _ => (steps / rng.gen_range(2, 12)).max(1),
    };
    OptCfg {
        steps,
        inner_steps,
        kt_start,
        kt_finish: [None, Some(0.), Some(1e-3), Some(0.1), Some(10.)][rng.gen_range(0, 5)],
        kt_ratio: [None, None, Some(0.), Some(0.1), Some(0.5), Some(1.)][rng.gen_range(0, 6)],
        // (occasionally moves at the resolution of the floats themselves)
        max_step_size: if rng.gen_range(0, 12) == 0 { 10f64.powf(rng.gen_range(-17., -12.)) } else { 10f64.powf(rng.gen_range(-4., 0.)) },
        seed: rng.gen::<u32>() as u64,
        convergence: [None, None, Some(0.), Some(1e-6), Some(1.)][rng.gen_range(0, 5)],
        builder_history: if rng.gen_range(0, 4) == 0 { Some(rng.gen::<u32>() as u64) } else { None },
    }
}

pub fn rand_bounds<R: Rng>(rng: &mut R, k: usize) -> (Vec<f64>, Vec<(f64, f64)>) {
    let mut init = vec![];
    let mut bounds = vec![];
    for _ in 0..k {
        let lo: f64 = match rng.gen_range(0, 3) {
            0 => 0.,
            1 => -0.5,
            _ => rng.gen_range(-5., 5.),
        };
        // (one range in twelve is empty: a parameter pinned between equal bounds, as a cell
        // ratio is after an earlier stage has driven it onto its lower limit)
        let w: f64 = match rng.gen_range(0, 12) {
            0 => 0.,
            1..=4 => 1.,
            5..=8 => 10f64.powf(rng.gen_range(-3., 2.)),
            _ => 2. * std::f64::consts::PI,
        };
        let hi = lo + w;
        let x = match rng.gen_range(0, 4) {
            // (a zero resting on a zero bound may carry either sign)
            0 if lo == 0. && rng.gen_bool(0.5) => -0.0,
            0 => lo,
            1 => hi,
            _ => lo + w * rng.gen::<f64>(),
        };
        init.push(x);
        bounds.push((lo, hi));
    }
    (init, bounds)
}

/// adversarial scripted histories: long reject runs, alternation, all-accept, all-reject,
/// undefined scores, random mixtures with a chosen rejection rate
pub fn rand_script<R: Rng>(rng: &mut R) -> Script {
    // (tiny gaps: a move that is worse by 1e-16 or by one denormal is still worse)
    let gap = [1., 1e-3, 1e3, 1., 1e-3, 1e-16, 1e-300, 5e-324][rng.gen_range(0, 8)];
    match rng.gen_range(0, 8) {
        0 => Script::Pattern { pattern: "W".into(), gap },
        1 => Script::Pattern { pattern: "B".into(), gap },
        2 => Script::Pattern { pattern: "BW".into(), gap },
        3 => {
            let n = rng.gen_range(2, 200);
            Script::Pattern { pattern: format!("{}B", "W".repeat(n)), gap }
        }
        4 => {
            let n = rng.gen_range(1, 30);
            let letters = ['B', 'E', 'W', 'N'];
            Script::Pattern { pattern: (0..n).map(|_| letters[rng.gen_range(0, 4)]).collect(), gap }
        }
        5 => Script::Pattern { pattern: "NWNB".into(), gap },
        _ => {
            // rejection rate (at zero temperature) 0%, 50%, 75%, 99%, 100%
            let rej = [0., 0.5, 0.75, 0.99, 1.0][rng.gen_range(0, 5)];
            let none = if rng.gen_bool(0.5) { rej * 0.3 } else { 0. };
            let acc = 1. - rej;
            Script::Random { p: [acc * 0.7, acc * 0.3, rej - none, none], seed: rng.gen(), gap }
        }
    }
}

pub fn rand_scripted_case<R: Rng>(rng: &mut R, kt_start: f64, max_steps: u64) -> ScriptedCase {
    let k = match rng.gen_range(0, 4) {
        0 => rng.gen_range(1, 4),
        1 => rng.gen_range(12, 25),
        _ => rng.gen_range(2, 12),
    };
    let (init, bounds) = rand_bounds(rng, k);
    let mut cfg = rand_cfg(rng, kt_start, max_steps);
    if rng.gen_bool(0.3) {
        // bounds hit on (nearly) every move
        cfg.max_step_size = 1.;
    }
    ScriptedCase {
        score_offset: if rng.gen_range(0, 5) == 0 { [1., 1., -1., 1e6, -3e-5, 0.1, f64::NEG_INFINITY, f64::INFINITY][rng.gen_range(0, 8)] } else { 0. },
        aliases: if rng.gen_range(0, 6) == 0 { (0..rng.gen_range(1, 3)).map(|_| (rng.gen_range(0, k), 1.)).collect() } else { vec![] },
        init,
        bounds,
        script: rand_script(rng),
        cfg,
        via_api: rng.gen_bool(0.3),
    }
}

/// With probability `p`, move one parameter's starting value outside its declared range (as
/// for the cell of a tiny shape, or a deserialised state).  Rejections must still restore it
/// exactly.  Not for C19: the first accepted move of such a parameter legitimately jumps.
pub fn maybe_start_outside<R: Rng>(rng: &mut R, sc: &mut ScriptedCase, p: f64) {
    if rng.gen_bool(p) {
        let i = rng.gen_range(0, sc.init.len());
        let w = sc.bounds[i].1 - sc.bounds[i].0;
        sc.init[i] = if rng.gen_bool(0.5) { sc.bounds[i].1 + w * rng.gen_range(0.01, 2.) } else { sc.bounds[i].0 - w * rng.gen_range(0.01, 2.) };
    }
}

pub fn rand_kt<R: Rng>(rng: &mut R) -> f64 {
    // (temperatures far below machine epsilon are temperatures all the same: with score gaps of
    // 1e-16 or one denormal they still decide)
    [0., 0., 1e-6, 1e-3, 0.1, 0.5, 10., 1e6, 1e-20, 1e-100, 1e-300, 5e-324, 1e300][rng.gen_range(0, 13)]
}

// ---------------------------------------------------------------------------------------
// Probe protocol (C07, C18): the fate of each probe is read directly off the next vectors.

#[derive(Default, Clone, Debug)]
pub struct ProbeTally {
    /// per inner loop: (accepted, resolved) and the same for the two halves of the loop
    pub per_loop: Vec<(u64, u64)>,
    pub first_half: Vec<(u64, u64)>,
    pub second_half: Vec<(u64, u64)>,
    pub flags: Vec<bool>,
    /// mean (old - new) actually presented, per loop
    pub d_sum: Vec<f64>,
    pub probes_seen: u64,
    pub dropped_ambiguous: u64,
    pub skipped_no_single_coordinate: u64,
    /// vector showed neither the probe's value nor the previous one after two look-aheads
    pub anomalies: u64,
    pub worse_accepted_at_all: u64,
}

struct Pending {
    c: usize,
    x: u64,
    old: u64,
    loop_idx: usize,
    second_half: bool,
    lookahead: u8,
    d: f64,
}

pub struct ProbeSink {
    pub tally: ProbeTally,
    pub mon: Option<TraceMonitor>,
    pub labels: Vec<char>,
    inner: u64,
    last_anchor: Option<(Vec<u64>, f64)>,
    pending: Option<Pending>,
}

impl ProbeSink {
    fn bump(v: &mut Vec<(u64, u64)>, i: usize, acc: bool) {
        if v.len() <= i {
            v.resize(i + 1, (0, 0));
        }
        v[i].1 += 1;
        if acc {
            v[i].0 += 1;
        }
    }
    fn resolve(&mut self, acc: bool) {
        if let Some(p) = self.pending.take() {
            Self::bump(&mut self.tally.per_loop, p.loop_idx, acc);
            if p.second_half {
                Self::bump(&mut self.tally.second_half, p.loop_idx, acc);
            } else {
                Self::bump(&mut self.tally.first_half, p.loop_idx, acc);
            }
            if self.tally.d_sum.len() <= p.loop_idx {
                self.tally.d_sum.resize(p.loop_idx + 1, 0.);
            }
            self.tally.d_sum[p.loop_idx] += p.d;
            if self.tally.flags.len() < 4_000_000 {
                self.tally.flags.push(acc);
            }
            if acc {
                self.tally.worse_accepted_at_all += 1;
            }
        }
    }
}

impl ScriptSink for ProbeSink {
    fn on_score(&mut self, call: u64, v: &[f64], score: Option<f64>, label: char) {
        if let Some(m) = self.mon.as_mut() {
            m.on_call(v, score);
            if self.labels.len() < 3_000_000 {
                self.labels.push(label);
            }
        }
        let bits: Vec<u64> = v.iter().map(|x| x.to_bits()).collect();
        // 1. does this vector decide a pending probe?
        if let Some(p) = self.pending.as_mut() {
            if bits[p.c] == p.x {
                self.resolve(true);
            } else if bits[p.c] == p.old {
                self.resolve(false);
            } else {
                p.lookahead += 1;
                if p.lookahead >= 2 {
                    // overwritten twice in a row (probability 1/k^2, independent of the
                    // acceptance draw) - or neither value present
                    if label == 'A' || label == 'S' || label == 'P' {
                        self.tally.dropped_ambiguous += 1;
                    } else {
                        self.tally.anomalies += 1;
                    }
                    self.pending = None;
                }
            }
        }
        // 2. book-keeping for this call
        match label {
            'A' => {
                if let Some(s) = score {
                    self.last_anchor = Some((bits, s));
                }
            }
            'P' => {
                self.tally.probes_seen += 1;
                if let (Some((av, ascore)), Some(s)) = (self.last_anchor.as_ref(), score) {
                    let diff: Vec<usize> = (0..bits.len()).filter(|i| av[*i] != bits[*i]).collect();
                    // (a probe clamped onto the value it started from cannot be told apart)
                    if diff.len() == 1 && self.pending.is_none() {
                        let prop = call.saturating_sub(1);
                        let inner = self.inner.max(1);
                        let l = (prop / inner) as usize;
                        let second = (prop % inner) * 2 >= inner;
                        self.pending = Some(Pending { c: diff[0], x: bits[diff[0]], old: av[diff[0]], loop_idx: l, second_half: second, lookahead: 0, d: ascore - s });
                    } else {
                        self.tally.skipped_no_single_coordinate += 1;
                    }
                }
            }
            _ => {}
        }
    }
}

pub struct ProbeReport {
    pub tally: ProbeTally,
    pub monitor: Option<TraceMonitor>,
    pub labels: Vec<char>,
    pub panicked: Option<String>,
}

pub fn run_probe(c: &ScriptedCase, with_monitor: bool) -> ProbeReport {
    let k = c.init.len();
    let inner = match &c.script {
        Script::Probe { inner, .. } => *inner,
        _ => c.cfg.effective_inner(),
    };
    let sink = Arc::new(Mutex::new(ProbeSink { tally: ProbeTally::default(), mon: if with_monitor { Some(TraceMonitor::new(k)) } else { None }, labels: vec![], inner, last_anchor: None, pending: None }));
    let dynsink: Arc<Mutex<dyn ScriptSink>> = sink.clone();
    let mut state = Scripted::new(&c.init, &c.bounds, c.script.clone(), dynsink);
    state.aliases = c.aliases.clone();
    state.offset = c.score_offset;
    let builder = if c.via_api { Ok(c.cfg.builder_api()) } else { c.cfg.builder() };
    let res = match builder {
        Err(e) => Err(format!("configuration rejected by the argument parser: {}", e)),
        Ok(b) => catch_unwind(AssertUnwindSafe(|| {
            let opt = b.build();
            used_before(&c.cfg, &opt);
            let out = opt.optimise_state(state);
            params_of(&out)
        }))
        .map_err(panic_message),
    };
    let mut g = sink.lock().unwrap();
    let tally = std::mem::take(&mut g.tally);
    let monitor = g.mon.take();
    let labels = std::mem::take(&mut g.labels);
    drop(g);
    ProbeReport { tally, monitor, labels, panicked: res.err() }
}
