//! Shared machinery for the Monte-Carlo control-flow properties (C05 C06 C07 C08 C18 C19 C20):
//! optimiser configurations, runs of `optimise_state` on Scripted and Spy-wrapped real states
//! under catch_unwind, with the trace monitor attached.
use std::panic::{catch_unwind, AssertUnwindSafe};
use std::sync::{Arc, Mutex};

use packing::traits::State;
use packing::BuildOptimiser;
use rand::Rng;
use serde::{Deserialize, Serialize};
use structopt::StructOpt;

use crate::observe::scripted::{Script, ScriptSink, Scripted};
use crate::observe::spy::{params_of, Sink, Spy};
use crate::observe::trace::{Decision, TraceMonitor};

#[derive(Clone, Debug, Serialize, Deserialize, PartialEq)]
pub struct OptCfg {
    pub steps: u64,
    pub inner_steps: u64,
    pub kt_start: f64,
    pub kt_finish: Option<f64>,
    pub kt_ratio: Option<f64>,
    pub max_step_size: f64,
    pub seed: u64,
    pub convergence: Option<f64>,
}

impl OptCfg {
    /// Built through the CLI's own argument parser (the only way to leave kt_finish unset),
    /// then seeded.
    pub fn builder(&self) -> Result<BuildOptimiser, String> {
        let mut args: Vec<String> = vec!["optimiser".into()];
        let mut push = |k: &str, v: String| {
            args.push(k.to_string());
            args.push(v);
        };
        push("--steps", self.steps.to_string());
        push("--inner-steps", self.inner_steps.to_string());
        push("--kt-start", format!("{:e}", self.kt_start));
        if let Some(f) = self.kt_finish {
            push("--kt-finish", format!("{:e}", f));
        }
        if let Some(r) = self.kt_ratio {
            push("--kt-ratio", format!("{:e}", r));
        }
        push("--max-step-size", format!("{:e}", self.max_step_size));
        if let Some(c) = self.convergence {
            push("--convergence", format!("{:e}", c));
        }
        let mut b = BuildOptimiser::from_iter_safe(args.iter()).map_err(|e| e.to_string())?;
        b.seed(self.seed);
        Ok(b)
    }
    /// Same configuration through the builder methods (kt_finish cannot be unset this way)
    pub fn builder_api(&self) -> BuildOptimiser {
        let mut b = BuildOptimiser::default();
        b.steps(self.steps).inner_steps(self.inner_steps).kt_start(self.kt_start).kt_ratio(self.kt_ratio).max_step_size(self.max_step_size).seed(self.seed).convergence(self.convergence);
        if let Some(f) = self.kt_finish {
            b.kt_finish(f);
        }
        b
    }
    pub fn effective_inner(&self) -> u64 {
        self.inner_steps.min(self.steps)
    }
    /// number of inner loops the run is expected to have (0 when steps or inner is 0)
    pub fn loops(&self) -> u64 {
        let i = self.effective_inner();
        if i == 0 {
            0
        } else {
            self.steps / i
        }
    }
}

pub struct RunReport {
    pub monitor: TraceMonitor,
    /// label of each score() call of a scripted run (I initial, B E W N A P S L)
    pub labels: Vec<char>,
    pub panicked: Option<String>,
    pub returned: Option<Vec<f64>>,
    pub returned_score: Option<Option<f64>>,
    pub resolved: Vec<Decision>,
    /// every call, when requested (bit patterns of the vector, score)
    pub log: Vec<(Vec<u64>, Option<f64>)>,
}

struct ScriptedSinkImpl {
    mon: TraceMonitor,
    labels: Vec<char>,
    log: Vec<(Vec<u64>, Option<f64>)>,
    keep_log: bool,
}

impl ScriptSink for ScriptedSinkImpl {
    fn on_score(&mut self, _call: u64, v: &[f64], score: Option<f64>, label: char) {
        self.labels.push(label);
        if self.keep_log {
            self.log.push((v.iter().map(|x| x.to_bits()).collect(), score));
        }
        self.mon.on_call(v, score);
    }
}

fn panic_message(e: Box<dyn std::any::Any + Send>) -> String {
    if let Some(m) = e.downcast_ref::<String>() {
        m.clone()
    } else if let Some(m) = e.downcast_ref::<&str>() {
        m.to_string()
    } else {
        "panic".to_string()
    }
}

#[derive(Clone, Debug, Serialize, Deserialize)]
pub struct ScriptedCase {
    pub init: Vec<f64>,
    pub bounds: Vec<(f64, f64)>,
    pub script: Script,
    pub cfg: OptCfg,
    pub via_api: bool,
}

pub fn run_scripted(c: &ScriptedCase, keep_log: bool) -> RunReport {
    let k = c.init.len();
    let mut mon = TraceMonitor::new(k);
    mon.ranges = Some(c.bounds.clone());
    let sink = Arc::new(Mutex::new(ScriptedSinkImpl { mon, labels: vec![], log: vec![], keep_log }));
    let dynsink: Arc<Mutex<dyn ScriptSink>> = sink.clone();
    let state = Scripted::new(&c.init, &c.bounds, c.script.clone(), dynsink);
    let builder = if c.via_api { Ok(c.cfg.builder_api()) } else { c.cfg.builder() };
    let res = match builder {
        Err(e) => Err(format!("configuration rejected by the argument parser: {}", e)),
        Ok(b) => catch_unwind(AssertUnwindSafe(|| {
            let out = b.build().optimise_state(state);
            params_of(&out)
        }))
        .map_err(panic_message),
    };
    let mut g = sink.lock().unwrap();
    let mut mon = std::mem::replace(&mut g.mon, TraceMonitor::new(k));
    let labels = std::mem::take(&mut g.labels);
    let log = std::mem::take(&mut g.log);
    drop(g);
    let (panicked, returned) = match res {
        Ok(v) => {
            mon.check_returned(&v);
            (None, Some(v))
        }
        Err(m) => (Some(m), None),
    };
    let resolved = std::mem::take(&mut mon.resolved);
    RunReport { monitor: mon, labels, panicked, returned, returned_score: None, resolved, log }
}

struct SpySinkImpl {
    mon: TraceMonitor,
    log: Vec<(Vec<u64>, Option<f64>)>,
    keep_log: bool,
    /// declared range of every free parameter, checked on every evaluation
    declared: Option<Vec<(f64, f64)>>,
    out_of_range: Vec<(usize, Vec<f64>)>,
}

impl<S: State> Sink<S> for SpySinkImpl {
    fn on_score(&mut self, _inner: &S, v: &[f64], score: Option<f64>) {
        if self.keep_log {
            self.log.push((v.iter().map(|x| x.to_bits()).collect(), score));
        }
        if let Some(d) = &self.declared {
            for (i, (x, (lo, hi))) in v.iter().zip(d.iter()).enumerate() {
                if !(*x >= *lo && *x <= *hi) && self.out_of_range.len() < 4 {
                    self.out_of_range.push((i, v.to_vec()));
                }
            }
        }
        self.mon.on_call(v, score);
    }
}

pub struct RealReport {
    pub report: RunReport,
    pub out_of_range: Vec<(usize, Vec<f64>)>,
    pub result_json: Option<serde_json::Value>,
}

/// Run one optimisation of a real state observed through a Spy.
pub fn run_real<S: State + 'static>(state: S, cfg: &OptCfg, declared: Option<Vec<(f64, f64)>>, keep_log: bool, via_api: bool) -> RealReport {
    let k = state.generate_basis().len();
    let mut mon = TraceMonitor::new(k);
    mon.ranges = declared.clone();
    let sink = Arc::new(Mutex::new(SpySinkImpl { mon, log: vec![], keep_log, declared, out_of_range: vec![] }));
    let dynsink: Arc<Mutex<dyn Sink<S>>> = sink.clone();
    let spy = Spy::new(state, dynsink);
    let builder = if via_api { Ok(cfg.builder_api()) } else { cfg.builder() };
    let res = match builder {
        Err(e) => Err(format!("configuration rejected by the argument parser: {}", e)),
        Ok(b) => catch_unwind(AssertUnwindSafe(|| {
            let out = b.build().optimise_state(spy);
            let v = params_of(&out);
            // NB: Serialize first; score() on the result would add one more observed call
            let js = serde_json::to_value(&out).ok();
            (v, js)
        }))
        .map_err(panic_message),
    };
    let mut g = sink.lock().unwrap();
    let mut mon = std::mem::replace(&mut g.mon, TraceMonitor::new(k));
    let log = std::mem::take(&mut g.log);
    let oor = std::mem::take(&mut g.out_of_range);
    drop(g);
    let (panicked, returned, js) = match res {
        Ok((v, js)) => {
            mon.check_returned(&v);
            (None, Some(v), js)
        }
        Err(m) => (Some(m), None, None),
    };
    let resolved = std::mem::take(&mut mon.resolved);
    RealReport { report: RunReport { monitor: mon, labels: vec![], panicked, returned, returned_score: None, resolved, log }, out_of_range: oor, result_json: js }
}

/// believed score of the returned state according to the monitor (None when ambiguous)
pub fn believed_final_score(r: &RunReport) -> Option<f64> {
    let ret = r.returned.as_ref()?;
    let bits: Vec<u64> = ret.iter().map(|x| x.to_bits()).collect();
    let c: Vec<Option<f64>> = r
        .monitor
        .candidates()
        .into_iter()
        .filter(|(v, _)| v.iter().map(|x| x.to_bits()).collect::<Vec<_>>() == bits)
        .map(|(_, s)| s)
        .collect();
    if c.is_empty() {
        return None;
    }
    let first = c[0];
    if c.iter().all(|s| s.map(f64::to_bits) == first.map(f64::to_bits)) {
        first
    } else {
        None
    }
}

pub fn initial_score(r: &RunReport) -> Option<f64> {
    r.monitor.initial.as_ref().and_then(|(_, s)| *s)
}

/// random optimiser configuration over the whole space (temperatures chosen by the caller)
pub fn rand_cfg<R: Rng>(rng: &mut R, kt_start: f64, max_steps: u64) -> OptCfg {
    let steps = match rng.gen_range(0, 6) {
        0 => rng.gen_range(1, 20),
        1 => [999, 1000, 1001, 2500][rng.gen_range(0, 4)].min(max_steps),
        _ => rng.gen_range(1, max_steps.max(2)),
    };
    let inner_steps = match rng.gen_range(0, 5) {
        0 => steps,
        1 => rng.gen_range(1, steps + 1),
        2 => (steps / rng.gen_range(2, 60)).max(1),
        3 => steps + rng.gen_range(1, 1000),
        _ => (steps / rng.gen_range(2, 12)).max(1),
    };
    OptCfg {
        steps,
        inner_steps,
        kt_start,
        kt_finish: [None, Some(0.), Some(1e-3), Some(0.1), Some(10.)][rng.gen_range(0, 5)],
        kt_ratio: [None, None, Some(0.), Some(0.1), Some(0.5), Some(1.)][rng.gen_range(0, 6)],
        max_step_size: 10f64.powf(rng.gen_range(-4., 0.)),
        seed: rng.gen::<u32>() as u64,
        convergence: [None, None, Some(0.), Some(1e-6), Some(1.)][rng.gen_range(0, 5)],
    }
}

pub fn rand_bounds<R: Rng>(rng: &mut R, k: usize) -> (Vec<f64>, Vec<(f64, f64)>) {
    let mut init = vec![];
    let mut bounds = vec![];
    for _ in 0..k {
        let lo: f64 = match rng.gen_range(0, 3) {
            0 => 0.,
            1 => -0.5,
            _ => rng.gen_range(-5., 5.),
        };
        let w: f64 = match rng.gen_range(0, 3) {
            0 => 1.,
            1 => 10f64.powf(rng.gen_range(-3., 2.)),
            _ => 2. * std::f64::consts::PI,
        };
        let hi = lo + w;
        let x = match rng.gen_range(0, 4) {
            0 => lo,
            1 => hi,
            _ => lo + w * rng.gen::<f64>(),
        };
        init.push(x);
        bounds.push((lo, hi));
    }
    (init, bounds)
}
