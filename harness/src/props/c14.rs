//! C14 - one lattice: Cartesian map, periodic images and cell area agree.
use std::f64::consts::PI;

use nalgebra::Point2;
use packing::{Cell2, Transform2};
use rand::Rng;
use serde::{Deserialize, Serialize};
use serde_json::json;

use crate::common::*;
use crate::libx::{from_affine, to_affine};
use crate::oracle::geom::Affine;
use crate::oracle::lattice::Lattice;

#[derive(Clone, Debug, Serialize, Deserialize)]
pub struct Case {
    pub length: f64,
    pub ratio: f64,
    pub angle: f64,
    pub family: String,
    pub fx: f64,
    pub fy: f64,
    /// placement: linear part (row-major) and fractional translation
    pub m: [[f64; 2]; 2],
    pub t: [f64; 2],
    pub shells: i64,
    pub zero: bool,
}

const FAMILIES: [&str; 4] = ["Monoclinic", "Orthorhombic", "Hexagonal", "Tetragonal"];

pub fn gen_case<R: Rng>(rng: &mut R) -> Case {
    let family = FAMILIES[rng.gen_range(0, 4)].to_string();
    let length = match rng.gen_range(0, 4) {
        0 => rng.gen_range(0.01, 1.),
        1 => rng.gen_range(1., 10.),
        2 => 10f64.powf(rng.gen_range(-2., 2.)),
        _ => [0.01, 1., 2., 8., 100.][rng.gen_range(0, 5)],
    };
    // (cells read from JSON are any lattice: second side longer than the first, obtuse angles)
    let ratio = match rng.gen_range(0, 5) {
        0 => [0.1, 0.5, 1.0][rng.gen_range(0, 3)],
        1 => rng.gen_range(1.0, 10.0),
        _ => rng.gen_range(0.1, 1.0),
    };
    let angle = match rng.gen_range(0, 6) {
        0 => [PI / 2., PI / 3., PI / 6., PI / 4.][rng.gen_range(0, 4)],
        1 => rng.gen_range(0.05, PI - 0.05),
        _ => rng.gen_range(PI / 6., PI / 2.),
    };
    let phi: f64 = rng.gen_range(0., 2. * PI);
    let (s, c) = phi.sin_cos();
    let mut m = [[c, -s], [s, c]];
    if rng.gen_bool(0.5) {
        // reflection
        m = [[-c, -s], [-s, c]];
    }
    if rng.gen_bool(0.2) {
        m = [[1., 0.], [0., 1.]];
    }
    Case {
        length,
        ratio,
        angle,
        family,
        fx: rng.gen_range(-3., 3.),
        fy: rng.gen_range(-3., 3.),
        m,
        // placements inside the cell, on its faces, and outside it
        t: match rng.gen_range(0, 4) {
            0 => [rng.gen_range(-3., 3.), rng.gen_range(-3., 3.)],
            1 => [[-0.5, 0.5, 0., 1., -1.5][rng.gen_range(0, 5)], [-0.5, 0.5, 0., 2.][rng.gen_range(0, 4)]],
            _ => [rng.gen_range(-0.5, 0.5), rng.gen_range(-0.5, 0.5)],
        },
        shells: rng.gen_range(0, 7),
        zero: rng.gen_bool(0.5),
    }
}

fn viol(what: &str, case: &Case, detail: serde_json::Value) -> Violation {
    Violation {
        kind: "c14.cell".into(),
        signature: format!("Cell2::{}", what),
        case: serde_json::to_value(case).unwrap(),
        detail,
    }
}

pub fn check(case: &Case, st: &mut Stats) {
    st.eval();
    let txt = format!(
        "{{\"length\":{},\"ratio\":{},\"angle\":{},\"family\":\"{}\"}}",
        serde_json::to_string(&case.length).unwrap(),
        serde_json::to_string(&case.ratio).unwrap(),
        serde_json::to_string(&case.angle).unwrap(),
        case.family
    );
    let cell: Cell2 = match serde_json::from_str(&txt) {
        Ok(c) => c,
        Err(e) => {
            st.violation(viol("deserialize", case, json!({"error": e.to_string(), "json": txt})));
            return;
        }
    };
    check_cell(&cell, case, st);
}

/// compare every view of `cell` with the lattice that `case` describes
pub fn check_cell(cell: &Cell2, case: &Case, st: &mut Stats) {
    // what the cell actually holds (the JSON reader may be off by an ulp: not C14's concern)
    let lat = Lattice { a: cell.a(), b: cell.b(), theta: cell.angle() };
    if (lat.a - case.length).abs() > 1e-12 * case.length
        || (lat.b - case.length * case.ratio).abs() > 1e-12 * case.length
        || (lat.theta - case.angle).abs() > 1e-12
    {
        st.violation(viol("accessors(a,b,angle)", case, json!({"a": lat.a, "b": lat.b, "angle": lat.theta})));
        return;
    }
    let scale = lat.a.abs() + lat.b.abs();
    let tol = |mag: f64| 1e-12 * (mag + scale * 1e-3);
    let nontrivial = (lat.theta - PI / 2.).abs() > 1e-6 || case.shells >= 2;
    if nontrivial {
        st.nontrivial(hash64(&[q(case.length, 1e-4), q(case.ratio, 1e-4), q(case.angle, 1e-4), case.shells as u64, case.zero as u64, hash_str(&case.family)]));
    }
    // 1. fractional -> Cartesian is x A + y B
    let want = lat.cart(case.fx, case.fy);
    let mag = case.fx.abs() * lat.a + case.fy.abs() * lat.b;
    let got = cell.to_cartesian(case.fx, case.fy);
    if (got.0 - want[0]).abs() > tol(mag) || (got.1 - want[1]).abs() > tol(mag) {
        st.violation(viol("to_cartesian", case, json!({"got": [got.0, got.1], "want": want})));
    }
    let gp = cell.to_cartesian_point(Point2::new(case.fx, case.fy));
    if (gp.x - want[0]).abs() > tol(mag) || (gp.y - want[1]).abs() > tol(mag) {
        st.violation(viol("to_cartesian_point", case, json!({"got": [gp.x, gp.y], "want": want})));
    }
    // 2. isometry: linear part kept bit for bit, translation mapped
    let place = Affine { m: case.m, t: case.t };
    let t2: Transform2 = from_affine(&place);
    let iso = to_affine(&cell.to_cartesian_isometry(t2));
    let wt = lat.cart(case.t[0], case.t[1]);
    let magt = case.t[0].abs() * lat.a + case.t[1].abs() * lat.b;
    if f64_bits_vec(&[iso.m[0][0], iso.m[0][1], iso.m[1][0], iso.m[1][1]]) != f64_bits_vec(&[case.m[0][0], case.m[0][1], case.m[1][0], case.m[1][1]])
        || (iso.t[0] - wt[0]).abs() > tol(magt)
        || (iso.t[1] - wt[1]).abs() > tol(magt)
    {
        st.violation(viol("to_cartesian_isometry", case, json!({"got": {"m": iso.m, "t": iso.t}, "want_t": wt})));
    }
    // 3. periodic images: exactly T + nA + mB for |n|,|m| <= k, each once
    let imgs: Vec<Affine> = cell.periodic_images(t2, case.shells, case.zero).map(|t| to_affine(&t)).collect();
    let k = case.shells;
    let mut expected: Vec<(i64, i64)> = vec![];
    for n in -k..=k {
        for m in -k..=k {
            if !case.zero && n == 0 && m == 0 {
                continue;
            }
            expected.push((n, m));
        }
    }
    st.add("images_compared", imgs.len() as u64);
    if imgs.len() != expected.len() {
        st.violation(viol("periodic_images:count", case, json!({"got": imgs.len(), "want": expected.len()})));
    } else {
        let mut used = vec![false; imgs.len()];
        let magi = (k as f64 + 1.) * scale;
        for (n, m) in expected.iter() {
            let w = lat.cart(case.t[0] + *n as f64, case.t[1] + *m as f64);
            let hit = imgs.iter().enumerate().find(|(i, im)| {
                !used[*i] && (im.t[0] - w[0]).abs() <= tol(magi) && (im.t[1] - w[1]).abs() <= tol(magi)
            });
            match hit {
                Some((i, im)) => {
                    used[i] = true;
                    if f64_bits_vec(&[im.m[0][0], im.m[0][1], im.m[1][0], im.m[1][1]])
                        != f64_bits_vec(&[case.m[0][0], case.m[0][1], case.m[1][0], case.m[1][1]])
                    {
                        st.violation(viol("periodic_images:orientation-changed", case, json!({"n": n, "m": m, "got": im.m})));
                        break;
                    }
                }
                None => {
                    st.violation(viol("periodic_images:missing-or-duplicated", case, json!({"n": n, "m": m, "want_t": w})));
                    break;
                }
            }
        }
    }
    // 3b. the images are handed out as an iterator: every way of consuming it walks the same set
    let hcase = hash64(&[case.length.to_bits(), case.ratio.to_bits(), case.t[0].to_bits(), case.shells as u64]);
    if hcase % 8 == 0 && case.shells <= 3 {
        let mut r = crate::common::rng_for(hcase, 1414);
        let mut calls = 0u64;
        if let Some(e) = super::iterproto::check(|| cell.periodic_images(t2, case.shells, case.zero), &mut r, &mut calls) {
            st.violation(viol("periodic_images:depends-on-how-the-iterator-is-consumed", case, json!({ "disagreement": e })));
        }
        st.add("image_iterator_calls_checked", calls);
    }
    // 4. area
    let area = cell.area();
    // (a product of three doubles and a sine: a few ulps whatever the order of the factors)
    if (area - lat.area()).abs() > 1e-14 * lat.area() {
        st.violation(viol("area", case, json!({"got": area, "want": lat.area()})));
    }
    // 5. centre and corners
    let c = cell.center();
    let wc = lat.cart(0.5, 0.5);
    if (c.x - wc[0]).abs() > tol(scale) || (c.y - wc[1]).abs() > tol(scale) {
        st.violation(viol("center", case, json!({"got": [c.x, c.y], "want": wc})));
    }
    let corners = cell.get_corners();
    let mut wantc: Vec<[f64; 2]> = vec![];
    for sx in [-0.5, 0.5].iter() {
        for sy in [-0.5, 0.5].iter() {
            wantc.push(lat.cart(*sx, *sy));
        }
    }
    let ok = corners.len() == 4
        && wantc.iter().all(|w| corners.iter().filter(|p| (p.x - w[0]).abs() <= tol(scale) && (p.y - w[1]).abs() <= tol(scale)).count() >= 1);
    if !ok {
        st.violation(viol("get_corners", case, json!({"got": corners.iter().map(|p| [p.x, p.y]).collect::<Vec<_>>(), "want": wantc})));
    }
    st.sample(|| json!({"case": case, "to_cartesian": [got.0, got.1], "oracle": want, "images": imgs.len(), "area": area}));
}

/// A chain of cells evaluated one after the other on one thread, each sharing some of (a, b,
/// angle, area) bit for bit with its predecessor while the rest differs, and returning to
/// earlier lattices: the three views must describe the cell in hand, not one seen before.
/// `in_place`: one Cell2 object taken through the chain by its own degrees of freedom
/// (Monoclinic only; values inside the declared bounds); otherwise a fresh cell per link.
#[derive(Clone, Debug, Serialize, Deserialize)]
pub struct Chain {
    pub base: Case,
    pub in_place: bool,
    pub links: Vec<[f64; 3]>,
}

pub fn gen_chain<R: Rng>(rng: &mut R) -> Chain {
    let mut base = gen_case(rng);
    let in_place = rng.gen_bool(0.5);
    if in_place {
        base.family = "Monoclinic".into();
        base.length = base.length.max(0.2);
        base.ratio = rng.gen_range(0.8, 4.0);
        base.angle = PI / 2.;
    }
    let (l, r) = (base.length, base.ratio);
    let t0 = if in_place { rng.gen_range(PI / 6., PI / 2.) } else { base.angle };
    let t1 = if in_place { rng.gen_range(PI / 6., PI / 2.) } else { rng.gen_range(0.05, PI - 0.05) };
    // halving and doubling are exact, so the shared quantities are shared to the last bit
    let mut links = vec![
        [l, r / 2., t0],
        [l / 2., r, t0],      // same b and angle, other a
        [l / 2., r / 2., t0], // same a and angle, other b
        [l / 2., r / 2., t1], // same a and b, other angle
        [l / 4., r, t1],      // same b and angle, other a
        [l, r / 4., t1],      // same b, other a; same area as the first link
        [l, r / 2., t0],      // an earlier lattice again
        [l / 2., r, t1],
        [l / 2., r, t0],
    ];
    // a random walk over the same small value sets
    for _ in 0..rng.gen_range(0, 12) {
        links.push([l / [1., 2., 4.][rng.gen_range(0, 3)], r / [1., 2., 4.][rng.gen_range(0, 3)], if rng.gen_bool(0.5) { t0 } else { t1 }]);
    }
    if in_place {
        links.retain(|k| k[1] >= 0.1 && k[0] >= 0.01);
    }
    Chain { base, in_place, links }
}

/// An image iterator is lazy and only borrows the cell, whose lengths and angle can be changed
/// through its handles while the iterator is alive.  Two readings are consistent: every image
/// belongs to the lattice the cell had when the iterator was made (a snapshot), or every image
/// belongs to the lattice the cell has when that image is handed out (live).  A pass that mixes
/// lattices in any other way shows a set of images that no cell ever had.
pub fn check_edit_during_iteration(ch: &Chain, st: &mut Stats) {
    use packing::traits::Basis;
    if !ch.in_place || ch.links.len() < 2 {
        return;
    }
    let c0 = &ch.base;
    let txt = format!(
        "{{\"length\":{},\"ratio\":{},\"angle\":{},\"family\":\"Monoclinic\"}}",
        serde_json::to_string(&c0.length).unwrap(),
        serde_json::to_string(&c0.ratio).unwrap(),
        serde_json::to_string(&c0.angle).unwrap()
    );
    let cell: Cell2 = match serde_json::from_str(&txt) {
        Ok(c) => c,
        Err(_) => return,
    };
    let mut dof = cell.get_degrees_of_freedom();
    let find = |dof: &Vec<packing::StandardBasis>, v: f64| dof.iter().position(|d| d.get_value().to_bits() == v.to_bits());
    let (il, ir, ia) = match (find(&dof, c0.length), find(&dof, c0.ratio), find(&dof, c0.angle)) {
        (Some(a), Some(b), Some(c)) if a != b && b != c && a != c => (a, b, c),
        _ => return,
    };
    let k = 1 + (c0.shells % 2);
    let total = ((2 * k + 1) * (2 * k + 1)) as usize - if c0.zero { 0 } else { 1 };
    let hcase = hash64(&[c0.length.to_bits(), c0.t[0].to_bits(), 77]);
    let j = 1 + (hcase as usize) % (total - 1);
    let l1 = ch.links[(hcase as usize / 7) % ch.links.len()];
    let place = Affine { m: c0.m, t: c0.t };
    let t2: Transform2 = from_affine(&place);
    let lat0 = Lattice { a: cell.a(), b: cell.b(), theta: cell.angle() };
    let mut it = cell.periodic_images(t2, k, c0.zero);
    let mut got: Vec<Affine> = vec![];
    for _ in 0..j {
        match it.next() {
            Some(t) => got.push(to_affine(&t)),
            None => return,
        }
    }
    dof[il].set_value(l1[0]);
    dof[ir].set_value(l1[1]);
    dof[ia].set_value(l1[2]);
    let lat1 = Lattice { a: cell.a(), b: cell.b(), theta: cell.angle() };
    for t in it.take(total + 3) {
        got.push(to_affine(&t));
    }
    st.eval();
    st.count("image_passes_with_the_cell_edited_part_way");
    if (lat0.a - lat1.a).abs() + (lat0.b - lat1.b).abs() + (lat0.theta - lat1.theta).abs() < 1e-6 {
        return;
    }
    let scale = lat0.a.abs() + lat0.b.abs() + lat1.a.abs() + lat1.b.abs();
    let tol = 1e-9 * (1. + scale) * (k as f64 + 1. + c0.t[0].abs() + c0.t[1].abs());
    let mut idx: Vec<(i64, i64)> = vec![];
    for n in -k..=k {
        for m in -k..=k {
            if c0.zero || n != 0 || m != 0 {
                idx.push((n, m));
            }
        }
    }
    // does the pass fit: images 0..split from lattice `la`, the rest from `lb`, each index once
    let fits = |split: usize, la: &Lattice, lb: &Lattice| -> bool {
        if got.len() != idx.len() {
            return false;
        }
        let mut used = vec![false; idx.len()];
        for (i, im) in got.iter().enumerate() {
            let lat = if i < split { la } else { lb };
            let hit = idx.iter().enumerate().position(|(q, (n, m))| {
                if used[q] {
                    return false;
                }
                let w = lat.cart(c0.t[0] + *n as f64, c0.t[1] + *m as f64);
                (im.t[0] - w[0]).abs() <= tol && (im.t[1] - w[1]).abs() <= tol
            });
            match hit {
                Some(q) => used[q] = true,
                None => return false,
            }
        }
        true
    };
    let snapshot = fits(got.len(), &lat0, &lat0);
    let live = fits(j, &lat0, &lat1);
    if !snapshot && !live {
        st.violation(Violation {
            kind: "c14.chain".into(),
            signature: "Cell2::periodic_images:mixes-two-lattices-when-the-cell-is-edited-during-the-pass".into(),
            case: serde_json::to_value(ch).unwrap(),
            detail: json!({"images_taken_before_the_edit": j, "shells": k, "cell_before": [lat0.a, lat0.b, lat0.theta], "cell_after": [lat1.a, lat1.b, lat1.theta], "images": got.iter().map(|a| a.t).collect::<Vec<_>>(), "fits_snapshot_reading": snapshot, "fits_live_reading": live}),
        });
    }
}

pub fn check_chain(ch: &Chain, st: &mut Stats) {
    check_edit_during_iteration(ch, st);
    let before = st.violations.len();
    check_chain_inner(ch, st);
    // a witness found inside a chain is only reproducible as the chain
    for v in st.violations.iter_mut().skip(before) {
        v.detail = json!({"cell_in_hand": v.case, "what": v.detail});
        v.case = serde_json::to_value(ch).unwrap();
    }
}

fn check_chain_inner(ch: &Chain, st: &mut Stats) {
    use packing::traits::Basis;
    let mut n = 0u64;
    if ch.in_place {
        let txt = format!(
            "{{\"length\":{},\"ratio\":{},\"angle\":{},\"family\":\"Monoclinic\"}}",
            serde_json::to_string(&ch.base.length).unwrap(),
            serde_json::to_string(&ch.base.ratio).unwrap(),
            serde_json::to_string(&ch.base.angle).unwrap()
        );
        let cell: Cell2 = match serde_json::from_str(&txt) {
            Ok(c) => c,
            Err(_) => return,
        };
        check_cell(&cell, &ch.base, st);
        let mut dof = cell.get_degrees_of_freedom();
        // which handle is which: by the value it holds (the three differ by construction)
        let find = |dof: &Vec<packing::StandardBasis>, v: f64| dof.iter().position(|d| d.get_value().to_bits() == v.to_bits());
        let (il, ir, ia) = match (find(&dof, ch.base.length), find(&dof, ch.base.ratio), find(&dof, ch.base.angle)) {
            (Some(a), Some(b), Some(c)) if a != b && b != c && a != c => (a, b, c),
            _ => {
                st.count("in_place_chains_skipped(handles not identifiable)");
                return;
            }
        };
        for k in ch.links.iter() {
            dof[il].set_value(k[0]);
            dof[ir].set_value(k[1]);
            dof[ia].set_value(k[2]);
            let mut c = ch.base.clone();
            c.length = k[0];
            c.ratio = k[1];
            c.angle = k[2];
            check_cell(&cell, &c, st);
            n += 1;
        }
    } else {
        for k in ch.links.iter() {
            let mut c = ch.base.clone();
            c.length = k[0];
            c.ratio = k[1];
            c.angle = k[2];
            check(&c, st);
            n += 1;
        }
    }
    st.add("cells_evaluated_in_chains", n);
    st.count(if ch.in_place { "chains[one cell moved by its degrees of freedom]" } else { "chains[fresh cell per link]" });
}

pub fn run(ctx: &Ctx) {
    ctx.set_rule("random cells deserialised from JSON (4 families; length 0.01-100 log/uniform/special, ratio 0.1-1, angle pi/6-pi/2 and the exact family values), random fractional points, random placements (rotations, reflections, identity), shells 0..6, zero in/excluded; each case compares to_cartesian/_point/_isometry, periodic_images (as a set, each once, linear part bit-identical), area, center and corners with A=(a,0), B=(b cos t, b sin t); non-trivial = non-rectangular cell or >= 2 shells; distinct by quantised (length, ratio, angle, shells, zero, family); plus chains of 9-21 cells evaluated back to back on one thread, each sharing a, b, the angle or the area bit for bit with its predecessor while the rest differs and returning to earlier lattices - as fresh cells, and as one Cell2 moved by its own degrees of freedom; image passes during which the cell is edited through its handles must fit one lattice reading (snapshot at creation, or live) as a whole");
    let n = ctx.tier.pick(12_000u64, 1_500_000u64);
    let nc = ctx.tier.pick(600u64, 60_000u64);
    par_shards(ctx, 14, 64, |_, rng, st| {
        for _ in 0..n {
            let c = gen_case(rng);
            check(&c, st);
        }
        for _ in 0..nc {
            check_chain(&gen_chain(rng), st);
        }
    });
    // cells as the library builds them for each family
    let mut st = Stats::new();
    for (fam, name, angle) in [
        (packing::CrystalFamily::Monoclinic, "Monoclinic", PI / 2.),
        (packing::CrystalFamily::Orthorhombic, "Orthorhombic", PI / 2.),
        (packing::CrystalFamily::Tetragonal, "Tetragonal", PI / 2.),
        (packing::CrystalFamily::Hexagonal, "Hexagonal", PI / 3.),
    ]
    .iter()
    {
        for len in [0.01, 1., 2.5, 8., 1e9].iter() {
            let cell = Cell2::from_family(*fam, *len);
            let mut c = gen_case(&mut crate::common::rng_for(ctx.seed, 1400 + (*len as u64)));
            // (what such a cell holds is the library's choice; the views must agree with it)
            let _ = angle;
            c.length = cell.a();
            c.ratio = cell.b() / cell.a();
            c.angle = cell.angle();
            c.family = name.to_string();
            check_cell(&cell, &c, &mut st);
            st.count("cells_from_family");
        }
    }
    ctx.merge(st);
    ctx.set_min_nontrivial(1000);
}

pub fn replay(ctx: &Ctx, case: &serde_json::Value) {
    let mut st = Stats::new();
    if let Ok(ch) = serde_json::from_value::<Chain>(case.clone()) {
        check_chain(&ch, &mut st);
    } else if let Ok(c) = serde_json::from_value::<Case>(case.clone()) {
        check(&c, &mut st);
    }
    ctx.merge(st);
}
