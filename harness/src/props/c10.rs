//! C10 - the CLI writes the best replica, labelled with what was asked for.
use packing::traits::State;
use packing::{LJShape2, LineShape, MolecularShape2, PackedState, PotentialState};
use rand::Rng;
use serde::{Deserialize, Serialize};
use serde_json::{json, Value};

use crate::common::*;
use crate::observe::cli;
use crate::oracle::groups;
use crate::oracle::xjson;

#[derive(Clone, Debug, Serialize, Deserialize)]
pub struct Case {
    pub group: String,
    /// "polygon" | "circle" | "trimer"
    pub shape: String,
    pub sides: usize,
    pub radius: f64,
    pub angle: f64,
    pub distance: f64,
    pub lj: bool,
    pub max_replications: u64,
    pub steps: u64,
    pub inner_steps: u64,
    pub extra: Vec<String>,
    /// run once with exactly this many replications instead of 1..max_replications
    #[serde(default)]
    pub fixed_replications: Option<u64>,
    /// first run the binary with these positional arguments and pass its JSON as --start-config
    #[serde(default)]
    pub start_config_from: Option<Vec<String>>,
}

fn viol(what: &str, c: &Case, detail: Value) -> Violation {
    Violation { kind: "c10.cli".into(), signature: format!("cli:{}", what), case: serde_json::to_value(c).unwrap(), detail }
}

pub struct HookEvent {
    pub seq: u64,
    pub kind: String,
    pub replica: i64,
    pub stage: u64,
    pub thread: i64,
    pub score: Option<f64>,
}

pub fn parse_hook_log(lines: &[String]) -> Vec<HookEvent> {
    let mut v: Vec<HookEvent> = lines
        .iter()
        .filter_map(|l| xjson::parse(l).ok())
        .map(|j| HookEvent {
            seq: j["seq"].as_u64().unwrap_or(0),
            kind: j["kind"].as_str().unwrap_or("").to_string(),
            replica: j["replica"].as_i64().unwrap_or(-1),
            stage: j["stage"].as_u64().unwrap_or(0),
            thread: j["thread"].as_i64().unwrap_or(-1),
            score: j["score"].as_f64(),
        })
        .collect();
    v.sort_by_key(|e| e.seq);
    v
}

/// final score of each replica: the "done" event following the replica's stage-3 event on
/// the same worker thread
pub fn replica_finals(ev: &[HookEvent]) -> Vec<(i64, Option<f64>)> {
    let mut out = vec![];
    for (i, e) in ev.iter().enumerate() {
        if e.kind == "stage" && e.stage == 3 {
            if let Some(d) = ev[i + 1..].iter().find(|d| d.thread == e.thread && (d.kind == "done" || (d.kind == "stage" && d.stage == 3))) {
                if d.kind == "done" {
                    out.push((e.replica, d.score));
                }
            }
        }
    }
    out
}

fn positional(c: &Case) -> Vec<String> {
    let mut pos = vec![c.group.clone(), c.shape.clone()];
    match c.shape.as_str() {
        "polygon" => {
            pos.push("--sides".into());
            pos.push(c.sides.to_string());
        }
        "trimer" => {
            pos.push("--radius".into());
            pos.push(format!("{}", c.radius));
            pos.push("--angle".into());
            pos.push(format!("{}", c.angle));
            pos.push("--distance".into());
            pos.push(format!("{}", c.distance));
        }
        _ => {}
    }
    pos
}

/// re-score the written structure with the library and report (score, copies)
fn rescore(c: &Case, js: &Value) -> Option<(Option<f64>, usize)> {
    if c.lj {
        let s: PotentialState<LJShape2> = serde_json::from_value(js.clone()).ok()?;
        Some((s.score(), s.cartesian_positions().count()))
    } else if c.shape == "polygon" {
        let s: PackedState<LineShape> = serde_json::from_value(js.clone()).ok()?;
        Some((s.score(), s.cartesian_positions().count()))
    } else {
        let s: PackedState<MolecularShape2> = serde_json::from_value(js.clone()).ok()?;
        Some((s.score(), s.cartesian_positions().count()))
    }
}

fn check_labels(c: &Case, js: &Value) -> Option<(String, Value)> {
    let or = groups::group(&c.group)?;
    let name = js["wallpaper"]["name"].as_str().unwrap_or("");
    if name != c.group {
        return Some(("wrong-group-label".into(), json!({"requested": c.group, "written": name})));
    }
    let fam = js["wallpaper"]["family"].as_str().unwrap_or("");
    let cfam = js["cell"]["family"].as_str().unwrap_or("");
    if fam != or.family || cfam != or.family {
        return Some(("wrong-crystal-family".into(), json!({"requested_group": c.group, "expected": or.family, "wallpaper.family": fam, "cell.family": cfam})));
    }
    let nsym = js["occupied_sites"][0]["wyckoff"]["symmetries"].as_array().map(|a| a.len()).unwrap_or(0);
    let nsites = js["occupied_sites"].as_array().map(|a| a.len()).unwrap_or(0);
    if nsym != or.ops.len() || nsites != 1 {
        return Some(("wrong-number-of-copies".into(), json!({"symmetries_written": nsym, "sites": nsites, "group_order": or.ops.len()})));
    }
    let items = js["shape"]["items"].as_array().cloned().unwrap_or_default();
    let close = |a: f64, b: f64| (a - b).abs() <= 1e-12 * (1. + b.abs());
    match c.shape.as_str() {
        "polygon" => {
            if items.len() != c.sides {
                return Some(("wrong-shape".into(), json!({"requested_sides": c.sides, "edges_written": items.len()})));
            }
            for (i, it) in items.iter().enumerate() {
                let th = i as f64 * 2. * std::f64::consts::PI / c.sides as f64;
                let (x, y) = (it["start"][0].as_f64().unwrap_or(f64::NAN), it["start"][1].as_f64().unwrap_or(f64::NAN));
                if !((x - th.sin()).abs() < 1e-12 && (y - th.cos()).abs() < 1e-12) {
                    return Some(("wrong-shape".into(), json!({"vertex": i, "written": [x, y], "expected": [th.sin(), th.cos()]})));
                }
            }
        }
        "circle" => {
            let ok = items.len() == 1
                && items[0]["position"][0].as_f64() == Some(0.)
                && items[0]["position"][1].as_f64() == Some(0.)
                && if c.lj { items[0]["sigma"].as_f64() == Some(1.) } else { items[0]["radius"].as_f64() == Some(1.) };
            if !ok {
                return Some(("wrong-shape".into(), json!({"requested": "circle", "written": items})));
            }
        }
        "trimer" => {
            let h = (c.angle.to_radians() / 2.).cos() * c.distance;
            let w = (c.angle.to_radians() / 2.).sin() * c.distance;
            let want = [(0., -2. / 3. * h, 1.), (-w, h / 3., c.radius), (w, h / 3., c.radius)];
            if items.len() != 3 {
                return Some(("wrong-shape".into(), json!({"requested": "trimer", "particles_written": items.len()})));
            }
            for (it, (x, y, r)) in items.iter().zip(want.iter()) {
                let px = it["position"][0].as_f64().unwrap_or(f64::NAN);
                let py = it["position"][1].as_f64().unwrap_or(f64::NAN);
                let size_ok = if c.lj { it["sigma"].as_f64().map(|s| close(s, 2. * r)).unwrap_or(false) } else { it["radius"].as_f64().map(|s| close(s, *r)).unwrap_or(false) };
                if !(close(px, *x) && close(py, *y) && size_ok) {
                    return Some(("wrong-shape".into(), json!({"written": it, "expected_position": [x, y], "expected_radius": r})));
                }
            }
        }
        _ => {}
    }
    None
}

pub fn check(exe: &std::path::Path, tag: &str, c: &Case, st: &mut Stats) {
    let pos = positional(c);
    let pos_s: Vec<&str> = pos.iter().map(|s| s.as_str()).collect();
    // optional first run producing a start configuration for a different request
    let mut start_file: Option<std::path::PathBuf> = None;
    if let Some(other) = &c.start_config_from {
        let base = cli::scratch_dir().join(format!("{}-start-{}", tag, std::process::id()));
        let other_s: Vec<&str> = other.iter().map(|s| s.as_str()).collect();
        let mut pre0: Vec<&str> = vec!["--replications", "1", "--steps", "100"];
        if c.lj {
            pre0.push("-p");
            pre0.push("LJ");
        }
        let o = cli::run_with_outfile(exe, &base, &pre0, &other_s, &[], 300, false);
        if o.status == Some(0) && o.json.is_some() {
            start_file = Some(base.with_extension("json"));
            let _ = std::fs::remove_file(base.with_extension("svg"));
            let _ = std::fs::remove_file(format!("{}.hooklog", base.display()));
        } else {
            st.count("start_config_run_failed(skipped)");
            return;
        }
    }
    let mut prev_score: Option<f64> = None;
    let mut replica_scores_first: Vec<(i64, Option<f64>)> = vec![];
    for k in 1..=c.max_replications {
        st.eval();
        let k = c.fixed_replications.unwrap_or(k);
        let mut pre: Vec<String> = vec!["--replications".into(), k.to_string(), "--steps".into(), c.steps.to_string(), "--inner-steps".into(), c.inner_steps.to_string()];
        if c.lj {
            pre.push("-p".into());
            pre.push("LJ".into());
        }
        pre.extend(c.extra.iter().cloned());
        if let Some(f) = &start_file {
            pre.push("--start-config".into());
            pre.push(f.display().to_string());
        }
        let pre_s: Vec<&str> = pre.iter().map(|s| s.as_str()).collect();
        let threads = [1usize, 2, 3, 8][(k as usize) % 4];
        let out = cli::run(exe, &format!("{}-{}", tag, k), &pre_s, &pos_s, &[("RAYON_NUM_THREADS", threads.to_string())], 300);
        if out.timed_out {
            st.inconclusive.push(format!("CLI watchdog expired for {:?} {:?}", pre, pos));
            return;
        }
        if out.status != Some(0) {
            st.count("cli_runs_that_failed(not a C10 event; C20 decides)");
            return;
        }
        let js = match out.json.as_ref().and_then(|t| xjson::parse(t).ok()) {
            Some(j) => j,
            None => {
                // exit 0 and a logged final score, but the file holds no structure that could
                // have that score (absent, truncated, or followed by something else)
                st.violation(viol("written-file-is-not-a-structure", c, json!({"replications": k, "file_present": out.json.is_some(), "bytes": out.json.as_ref().map(|t| t.len()), "parse_error": out.json.as_ref().and_then(|t| xjson::parse(t).err()), "tail": out.json.as_ref().map(|t| t.chars().rev().take(60).collect::<String>().chars().rev().collect::<String>())})));
                return;
            }
        };
        // labels and geometry
        if let Some((what, detail)) = check_labels(c, &js) {
            st.violation(viol(&what, c, detail));
            return;
        }
        let (written_score, copies) = match rescore(c, &js) {
            Some(x) => x,
            None => {
                st.violation(viol("written-structure-not-readable", c, json!({"replications": k})));
                return;
            }
        };
        let order = groups::group(&c.group).map(|g| g.ops.len()).unwrap_or(0);
        if copies != order {
            st.violation(viol("wrong-number-of-copies", c, json!({"placements": copies, "group_order": order})));
            return;
        }
        let ws = match written_score {
            Some(s) => s,
            None => {
                st.violation(viol("written-structure-has-no-score", c, json!({"replications": k})));
                return;
            }
        };
        // logged final score is the score of the written structure
        match out.final_score_logged().and_then(|s| s.parse::<f64>().ok()) {
            Some(l) => {
                if !(rel_diff(l, ws) <= 1e-12) {
                    st.violation(viol("logged-score-is-not-the-written-structure's", c, json!({"logged": l, "written_structure_rescored": ws, "replications": k})));
                    return;
                }
            }
            None => {
                st.violation(viol("no-final-score-logged", c, json!({"stderr": out.stderr.lines().rev().take(3).collect::<Vec<_>>()})));
                return;
            }
        }
        // the written structure is the best replica (hook log)
        let ev = parse_hook_log(&out.hook_log);
        let finals = replica_finals(&ev);
        if finals.len() as u64 != k {
            st.inconclusive.push(format!("hook log incomplete: {} final scores for {} replicas", finals.len(), k));
            return;
        }
        let best = finals.iter().filter_map(|f| f.1).fold(f64::NEG_INFINITY, f64::max);
        let distinct: std::collections::BTreeSet<u64> = finals.iter().filter_map(|f| f.1).map(f64::to_bits).collect();
        if distinct.len() >= 2 {
            st.nontrivial(hash_str(&format!("{:?}{:?}", pre, pos)));
            st.count("runs_with_2+_distinct_replica_scores");
        }
        // (exactly: the written structure is one of the replicas, and re-scoring what was read
        // back gives that replica's score bit for bit - a best replica ahead by one ulp is ahead)
        if !(ws == best) {
            st.violation(viol("written-structure-is-not-the-best-replica", c, json!({"replications": k, "replica_final_scores": finals.iter().map(|f| json!([f.0, f.1])).collect::<Vec<_>>(), "best": best, "written": ws})));
            return;
        }
        // more replications never give a lower score; replica i is the same in both runs
        if let Some(p) = prev_score {
            if ws < p {
                st.violation(viol("score-drops-with-more-replications", c, json!({"replications": k, "score": ws, "score_with_one_fewer": p})));
                return;
            }
        }
        if k == 1 {
            replica_scores_first = finals.clone();
        }
        prev_score = Some(ws);
        if k == c.max_replications {
            st.sample(|| json!({"case": c, "replications": k, "replica_final_scores": finals.iter().map(|f| json!([f.0, f.1])).collect::<Vec<_>>(), "written": ws, "label": js["wallpaper"]["name"]}));
        }
    }
    let _ = replica_scores_first;
    if let Some(f) = &start_file {
        let _ = std::fs::remove_file(f);
    }
}

pub fn gen_case<R: Rng>(rng: &mut R, i: usize, kmax: u64) -> Case {
    let group = groups::NAMES[i % 7].to_string();
    let lj = (i / 7) % 3 == 2;
    let shape = if lj { ["trimer", "circle"][rng.gen_range(0, 2)] } else { ["polygon", "circle", "trimer", "polygon"][rng.gen_range(0, 4)] };
    let default_trimer = rng.gen_bool(0.5);
    Case {
        group,
        shape: shape.to_string(),
        sides: rng.gen_range(3, 9),
        radius: if default_trimer { 0.637556 } else { (rng.gen_range(0.3, 1.1) * 1000f64).round() / 1000. },
        angle: if default_trimer { 120. } else { (rng.gen_range(40., 180.) * 10f64).round() / 10. },
        distance: if default_trimer { 1. } else { (rng.gen_range(0.5, 1.8) * 100f64).round() / 100. },
        lj,
        max_replications: kmax,
        steps: [200, 500, 1000][rng.gen_range(0, 3)],
        inner_steps: [100, 1000][rng.gen_range(0, 2)],
        extra: if rng.gen_bool(0.3) { vec!["--kt-finish".into(), "0.001".into()] } else { vec![] },
        fixed_replications: None,
        start_config_from: None,
    }
}

pub fn run(ctx: &Ctx) {
    ctx.set_rule("the real binary (hooks on) for 7 groups x {polygon 3..8, circle, trimer variants} x {Hard, LJ} x replications 1..K (K = 4 quick / 12 thorough) x step settings, under RAYON_NUM_THREADS in {1,2,3,8}: the hook log gives every replica's final score; the written JSON is re-read and re-scored by the library. Checked: written score = max of the replica scores (exactly; also for replicas a few ulps apart, from steps of 2e-17..1e-14), logged 'Final score' = score of the written structure (1e-12), score(k+1 replications) >= score(k), wallpaper name / crystal family / copy count / shape geometry recomputed from argv against an independent table. Non-trivial = runs whose replicas have >= 2 distinct final scores; distinct by argv; plus single runs with 257, 1001, 1025 (thorough: up to 10,001) replications whose written score must be the maximum of all replica scores in the hook log");
    let exe = match ctx.args.cli.clone() {
        Some(e) => e,
        None => {
            ctx.inconclusive("packing binary not available (PV_CLI unset)");
            return;
        }
    };
    let n = ctx.tier.pick(28usize, 210usize);
    let kmax = ctx.tier.pick(4u64, 12u64);
    let mut rng = ctx.rng(10);
    let mut cases: Vec<Case> = (0..n).map(|i| gen_case(&mut rng, i, kmax)).collect();
    // purely repulsive LJ molecules (cutoff inside the minimum): every replica scores below zero
    for (g, r, d) in [("p1", 1.6, 0.1), ("p1m1", 1.6, 0.1), ("p2mg", 1.8, 0.2), ("p2", 2.0, 0.3)].iter() {
        cases.push(Case { group: g.to_string(), shape: "trimer".into(), sides: 4, radius: *r, angle: 120., distance: *d, lj: true, max_replications: kmax.max(5), steps: 300, inner_steps: 100, extra: vec![], fixed_replications: None, start_config_from: None });
    }
    // a start configuration written for ANOTHER group / shape of the same multiplicity: what is
    // written must still be what was requested
    cases.push(Case { group: "p2".into(), shape: "polygon".into(), sides: 6, radius: 0.637556, angle: 120., distance: 1., lj: false, max_replications: 2, steps: 200, inner_steps: 100, extra: vec![], fixed_replications: None, start_config_from: Some(vec!["p1g1".into(), "polygon".into(), "--sides".into(), "4".into()]) });
    cases.push(Case { group: "p2gg".into(), shape: "circle".into(), sides: 4, radius: 0.637556, angle: 120., distance: 1., lj: true, max_replications: 2, steps: 200, inner_steps: 100, extra: vec![], fixed_replications: None, start_config_from: Some(vec!["p2mg".into(), "circle".into()]) });
    // many replications, with and without verbose logging
    for (g, shape, lj, reps, verbose) in [("p2", "polygon", false, 64u64, true), ("p2mg", "trimer", false, 56, true), ("p1g1", "circle", true, 51, true), ("p2", "polygon", false, 70, false)].iter() {
        cases.push(Case { group: g.to_string(), shape: shape.to_string(), sides: 4, radius: 0.637556, angle: 120., distance: 1., lj: *lj, max_replications: 1, steps: 100, inner_steps: 100, extra: if *verbose { vec!["-v".into()] } else { vec![] }, fixed_replications: Some(*reps), start_config_from: None });
    }
    // a convergence threshold with short loops: stages that may end early, for 1, 2, 3 replicas
    {
        let mut r = ctx.rng(1010);
        for i in 0..ctx.tier.pick(36usize, 400usize) {
            use rand::Rng;
            let g = groups::NAMES[i % 7];
            let shape = ["polygon", "circle", "trimer"][(i / 7) % 3];
            let conv = ["1e-2", "1e-3", "3e-2", "1e-1"][r.gen_range(0, 4)];
            let step = ["0.05", "0.1", "0.2"][r.gen_range(0, 3)];
            cases.push(Case { group: g.to_string(), shape: shape.to_string(), sides: [3, 4, 5, 6][r.gen_range(0, 4)], radius: 0.637556, angle: 120., distance: 1., lj: false, max_replications: 3, steps: 1000, inner_steps: [5, 10, 20, 50][r.gen_range(0, 4)], extra: vec!["--convergence".into(), conv.into(), "--max-step-size".into(), step.into()], fixed_replications: None, start_config_from: None });
        }
    }
    // very many replications (batch sizes, 8/10/12-bit indices, buffer limits): the written
    // structure is still the best of all of them
    let big: Vec<(&str, &str, bool, u64)> = match ctx.tier {
        Tier::Quick => vec![("p1", "circle", false, 1001), ("p2", "circle", true, 257), ("p1", "polygon", false, 1025)],
        Tier::Thorough => vec![("p1", "circle", false, 1001), ("p2", "circle", true, 257), ("p1", "polygon", false, 1025), ("p1", "circle", false, 4097), ("p2", "polygon", false, 2049), ("p1", "circle", true, 3000), ("p1", "circle", false, 10_001)],
    };
    for (g, shape, lj, reps) in big.iter() {
        cases.push(Case { group: g.to_string(), shape: shape.to_string(), sides: 4, radius: 0.637556, angle: 120., distance: 1., lj: *lj, max_replications: 1, steps: 1, inner_steps: 1, extra: vec![], fixed_replications: Some(*reps), start_config_from: None });
    }
    // replicas a few ulps apart: steps of the size of the rounding of the parameters
    for (i, step) in ["3e-16", "1e-16", "1e-15", "2e-17", "1e-14"].iter().enumerate() {
        let (g, shape, sides) = [("p2", "polygon", 4usize), ("p1", "polygon", 3), ("p2gg", "circle", 4), ("p2mg", "polygon", 5), ("p1m1", "trimer", 4)][i];
        cases.push(Case { group: g.to_string(), shape: shape.to_string(), sides, radius: 0.637556, angle: 120., distance: 1., lj: false, max_replications: 1, steps: 100, inner_steps: 100, extra: vec!["--kt-start".into(), "0.1".into(), "--kt-ratio".into(), "0.5".into(), "--max-step-size".into(), step.to_string()], fixed_replications: Some(6 + i as u64 * 5), start_config_from: None });
    }
    // many replicas converging onto near-tied scores: the written one must still be the best
    for (g, shape, lj, reps, steps, step) in [("p1", "circle", true, 48u64, 150u64, "0.02"), ("p2", "circle", true, 40, 400, "0.02"), ("p1", "polygon", false, 32, 600, "0.05")].iter() {
        cases.push(Case { group: g.to_string(), shape: shape.to_string(), sides: 4, radius: 0.637556, angle: 120., distance: 1., lj: *lj, max_replications: 1, steps: *steps, inner_steps: 1000, extra: vec!["--max-step-size".into(), step.to_string()], fixed_replications: Some(*reps), start_config_from: None });
    }
    use rayon::prelude::*;
    let seed = ctx.seed;
    let all: Vec<Stats> = cases
        .par_iter()
        .enumerate()
        .map(|(i, c)| {
            let mut st = Stats::new();
            check(&exe, &format!("c10-{}-{}", seed, i), c, &mut st);
            st
        })
        .collect();
    for s in all {
        ctx.merge(s);
    }
    ctx.set_min_nontrivial(10);
}

pub fn replay(ctx: &Ctx, case: &Value) {
    let mut st = Stats::new();
    if let (Some(exe), Ok(c)) = (ctx.args.cli.clone(), serde_json::from_value::<Case>(case.clone())) {
        check(&exe, "c10-replay", &c, &mut st);
    }
    ctx.merge(st);
}
