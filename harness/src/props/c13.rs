//! C13 - the pair potential is the shifted, truncated 12-6 Lennard-Jones law.
use std::f64::consts::PI;

use nalgebra::Point2;
use packing::traits::{Potential, Shape};
use packing::{LJShape2, LJ2};
use rand::Rng;
use serde::{Deserialize, Serialize};
use serde_json::{json, Value};

use crate::common::*;
use crate::libx::from_affine;
use crate::oracle::geom::Affine;
use crate::oracle::lj::lj;

#[derive(Clone, Debug, Serialize, Deserialize)]
pub struct Particle {
    pub x: f64,
    pub y: f64,
    pub sigma: f64,
    pub eps: f64,
    pub cutoff: Option<f64>,
}

impl Particle {
    fn lib(&self) -> LJ2 {
        LJ2 { position: Point2::new(self.x, self.y), sigma: self.sigma, epsilon: self.eps, cutoff: self.cutoff }
    }
}

#[derive(Clone, Debug, Serialize, Deserialize)]
pub struct PairCase {
    pub a: Particle,
    pub b: Particle,
    /// rigid motion / reflection applied to both in the invariance clause
    pub motion: Option<([[f64; 2]; 2], [f64; 2])>,
}

fn viol(kind: &str, what: &str, case: Value, detail: Value) -> Violation {
    Violation { kind: kind.into(), signature: format!("LJ2::energy:{}", what), case, detail }
}

fn scale(r: f64, sigma: f64, eps: f64, cutoff: Option<f64>) -> f64 {
    let s6 = (sigma / r).powi(6);
    let mut s = 4. * eps.abs() * (s6 * s6 + s6);
    if let Some(rc) = cutoff {
        let c6 = (sigma / rc).powi(6);
        s += 4. * eps.abs() * (c6 * c6 + c6);
    }
    s
}

pub fn check_pair(c: &PairCase, st: &mut Stats) {
    st.eval();
    let (la, lb) = (c.a.lib(), c.b.lib());
    let r = ((c.a.x - c.b.x).powi(2) + (c.a.y - c.b.y).powi(2)).sqrt();
    let eab = la.energy(&lb);
    let eba = lb.energy(&la);
    let case = || serde_json::to_value(c).unwrap();
    let like = c.a.sigma == c.b.sigma && c.a.eps == c.b.eps && c.a.cutoff == c.b.cutoff;
    let within = c.a.cutoff.map(|rc| r < rc).unwrap_or(true);
    if within {
        st.nontrivial(hash64(&[q(r, 1e-7), q(c.a.sigma, 1e-6), q(c.b.sigma, 1e-6), q(c.a.eps, 1e-6), c.a.cutoff.map(|x| q(x, 1e-6)).unwrap_or(0)]));
    }
    // scale of the individual terms, for relative tolerances
    let sc = scale(r, c.a.sigma.max(c.b.sigma), c.a.eps.abs().max(c.b.eps.abs()), c.a.cutoff);
    if like {
        st.count("like_pairs");
        let want = lj(r, c.a.sigma, c.a.eps, c.a.cutoff);
        // r itself carries a rounding error of ~1 ulp which the r^-12 term amplifies 12x
        let tol = 1e-12 * sc + 1e-300;
        if !((eab - want).abs() <= tol) {
            st.violation(viol("c13.pair", "not-the-12-6-law", case(), json!({"r": r, "library": eab, "law": want, "tolerance": tol})));
            return;
        }
    } else {
        st.count("unlike_pairs");
    }
    // the value does not depend on what was evaluated before: a sibling pair with the same
    // sizes and cutoff but another epsilon is evaluated in between
    if like {
        let k = 3.7;
        let (sa, sb) = (LJ2 { epsilon: c.a.eps * k, ..c.a.lib() }, LJ2 { epsilon: c.b.eps * k, ..c.b.lib() });
        let es = sa.energy(&sb);
        let want = lj(r, c.a.sigma, c.a.eps * k, c.a.cutoff);
        if !((es - want).abs() <= 1e-12 * sc * k + 1e-300) {
            st.violation(viol("c13.pair", "depends-on-the-previous-evaluation", case(), json!({"r": r, "sibling_epsilon": c.a.eps * k, "library": es, "law": want, "evaluated_just_before": eab})));
            return;
        }
        let again = la.energy(&lb);
        if again.to_bits() != eab.to_bits() {
            st.violation(viol("c13.pair", "depends-on-the-previous-evaluation", case(), json!({"r": r, "first": eab, "after_a_sibling_evaluation": again})));
            return;
        }
    }
    // symmetric in the two particles
    if !((eab - eba).abs() <= 1e-12 * sc + 1e-300) {
        let what = if like { "asymmetric-like" } else { "asymmetric-unlike" };
        st.violation(viol("c13.pair", what, case(), json!({"r": r, "E(a,b)": eab, "E(b,a)": eba})));
        return;
    }
    // exactly zero at and beyond the cutoff (when both carry the same cutoff)
    if let (Some(rc), true) = (c.a.cutoff, c.a.cutoff == c.b.cutoff) {
        // (the library compares squared distances, so within a few ulps of the cutoff the
        // two sides may legitimately disagree about which side r is on)
        if r > rc * (1. + 1e-14) {
            st.count("beyond_cutoff");
            if eab != 0. || eba != 0. {
                st.violation(viol("c13.pair", "nonzero-beyond-cutoff", case(), json!({"r": r, "cutoff": rc, "E": eab})));
                return;
            }
        } else if r > rc * (1. - 1e-13) {
            st.count("at_cutoff_within_1e-13");
            // continuity: the value an ulp or so inside the cutoff is (numerically) zero
            if !(eab.abs() <= 1e-9 * sc.max(1.)) {
                st.violation(viol("c13.pair", "discontinuous-at-cutoff", case(), json!({"r": r, "cutoff": rc, "E": eab})));
                return;
            }
        }
    }
    // depends on the distance only
    if let Some((m, t)) = c.motion {
        st.count("rigid_motion_pairs");
        let mv = Affine { m, t };
        let tf = from_affine(&mv);
        let (ma, mb) = (&la * &tf, &lb * &tf);
        // the library's own transformed particles ...
        let e2 = ma.energy(&mb);
        // ... whose separation may differ from r by rounding of the moved coordinates
        let r2 = ((ma.position.x - mb.position.x).powi(2) + (ma.position.y - mb.position.y).powi(2)).sqrt();
        let amp = 13. * (r2 - r).abs() / r;
        let tol = (1e-12 + amp) * sc + 1e-300;
        let crosses = c.a.cutoff.map(|rc| (r < rc) != (r2 < rc)).unwrap_or(false);
        if ma.sigma != la.sigma || ma.epsilon != la.epsilon || ma.cutoff != la.cutoff {
            st.violation(viol("c13.pair", "transform-changes-parameters", case(), json!({"before": format!("{:?}", la), "after": format!("{:?}", ma)})));
            return;
        }
        if (r2 - r).abs() > 1e-9 * (r + t[0].abs() + t[1].abs() + 1.) {
            st.violation(viol("c13.pair", "transform-changes-distance", case(), json!({"r": r, "r_after": r2})));
            return;
        }
        if !crosses && !((e2 - eab).abs() <= tol) {
            st.violation(viol("c13.pair", "depends-on-more-than-distance", case(), json!({"r": r, "E": eab, "E_after_motion": e2, "r_after": r2})));
            return;
        }
    }
    st.sample(|| json!({"case": c, "r": r, "E(a,b)": eab, "E(b,a)": eba}));
}

fn gen_particle<R: Rng>(rng: &mut R, sigma: f64, eps: f64, cutoff: Option<f64>, pos: [f64; 2]) -> Particle {
    let _ = rng;
    Particle { x: pos[0], y: pos[1], sigma, eps, cutoff }
}

pub fn gen_pair<R: Rng>(rng: &mut R) -> PairCase {
    let sigma: f64 = match rng.gen_range(0, 6) {
        0 => 1.,
        1 => 2.,
        // all length scales: the law is scale-covariant
        2 => 10f64.powf(rng.gen_range(-9., 3.)),
        _ => rng.gen_range(0.1, 5.),
    };
    let eps = if rng.gen_bool(0.4) { 1. } else { rng.gen_range(0.1, 5.) };
    let scaled = sigma < 0.1 || sigma > 5.;
    let cutoff: Option<f64> = match rng.gen_range(0, 4) {
        0 => None,
        1 if !scaled => Some(3.5),
        _ => Some(rng.gen_range(1.5, 6.) * if scaled { sigma } else { 1. }),
    };
    let unlike = rng.gen_bool(0.35);
    let (s2, e2, c2) = if unlike {
        (
            if rng.gen_bool(0.7) { rng.gen_range(0.1, 5.) * if scaled { sigma } else { 1. } } else { sigma },
            if rng.gen_bool(0.5) { rng.gen_range(0.1, 5.) } else { eps },
            cutoff,
        )
    } else {
        (sigma, eps, cutoff)
    };
    // distance: log-uniform 0.5..10 sigma, or at the cutoff +- ulps
    let r = match (rng.gen_range(0, 5), cutoff) {
        (0, Some(rc)) => {
            let k: i64 = rng.gen_range(-3, 4);
            f64::from_bits((rc.to_bits() as i64 + k) as u64)
        }
        (1, Some(rc)) => rc * (1. + rng.gen_range(-1e-6, 1e-6)),
        _ => sigma.max(s2) * (0.5f64.ln() + rng.gen::<f64>() * (10f64 / 0.5).ln()).exp(),
    };
    let dir: f64 = if rng.gen_bool(0.3) { 0. } else { rng.gen_range(0., 2. * PI) };
    let origin = if rng.gen_bool(0.5) || scaled { [0., 0.] } else { [rng.gen_range(-20., 20.), rng.gen_range(-20., 20.)] };
    let a = gen_particle(rng, sigma, eps, cutoff, origin);
    let b = gen_particle(rng, s2, e2, c2, [origin[0] + r * dir.cos(), origin[1] + r * dir.sin()]);
    let motion = if rng.gen_bool(0.5) {
        let phi: f64 = rng.gen_range(0., 2. * PI);
        let (s, c) = phi.sin_cos();
        let m = if rng.gen_bool(0.5) { [[c, -s], [s, c]] } else { [[-c, -s], [-s, c]] };
        Some((m, [rng.gen_range(-10., 10.), rng.gen_range(-10., 10.)]))
    } else {
        None
    };
    PairCase { a, b, motion }
}

#[derive(Clone, Debug, Serialize, Deserialize)]
pub struct MinCase {
    pub sigma: f64,
    pub eps: f64,
}

/// uncut minimum -eps at 2^(1/6) sigma, located by golden-section search on library values
pub fn check_minimum(c: &MinCase, st: &mut Stats) {
    st.eval();
    st.nontrivial(hash64(&[77, q(c.sigma, 1e-6), q(c.eps, 1e-6)]));
    let a = LJ2 { position: Point2::new(0., 0.), sigma: c.sigma, epsilon: c.eps, cutoff: None };
    let e = |r: f64| a.energy(&LJ2 { position: Point2::new(r, 0.), sigma: c.sigma, epsilon: c.eps, cutoff: None });
    let (mut lo, mut hi) = (0.8 * c.sigma, 2.5 * c.sigma);
    let g = (5f64.sqrt() - 1.) / 2.;
    let (mut x1, mut x2) = (hi - g * (hi - lo), lo + g * (hi - lo));
    let (mut f1, mut f2) = (e(x1), e(x2));
    for _ in 0..200 {
        if f1 < f2 {
            hi = x2;
            x2 = x1;
            f2 = f1;
            x1 = hi - g * (hi - lo);
            f1 = e(x1);
        } else {
            lo = x1;
            x1 = x2;
            f1 = f2;
            x2 = lo + g * (hi - lo);
            f2 = e(x2);
        }
    }
    let rmin = (lo + hi) / 2.;
    let emin = e(rmin);
    let want_r = 2f64.powf(1. / 6.) * c.sigma;
    if !((emin + c.eps).abs() <= 1e-9 * c.eps) || !((rmin - want_r).abs() <= 1e-6 * c.sigma) {
        st.violation(viol("c13.min", "uncut-minimum", serde_json::to_value(c).unwrap(), json!({"r_min": rmin, "E_min": emin, "want_r": want_r, "want_E": -c.eps})));
    }
    // monotone either side of the minimum (a few probes)
    let probes = [0.9, 0.95, 1.0, 1.05, 1.1];
    let vals: Vec<f64> = probes.iter().map(|k| e(k * want_r)).collect();
    if !(vals[0] > vals[1] && vals[1] > vals[2] && vals[2] < vals[3] && vals[3] < vals[4]) {
        st.violation(viol("c13.min", "uncut-shape", serde_json::to_value(c).unwrap(), json!({"probes_r_over_rmin": probes, "E": vals})));
    }
    st.sample(|| json!({"case": c, "r_min_found": rmin, "E_min_found": emin}));
}

#[derive(Clone, Debug, Serialize, Deserialize)]
pub struct MolCase {
    pub radius: f64,
    pub angle: f64,
    pub distance: f64,
    pub circle: bool,
    pub t1: ([[f64; 2]; 2], [f64; 2]),
    pub t2: ([[f64; 2]; 2], [f64; 2]),
}

/// molecule energy = sum over particle pairs; trimer particles carry sigma = 2 radius, cutoff 3.5
/// arbitrary molecules (any number of particles): energy = sum over particle pairs, in
/// either order, inside a thread pool
pub fn check_big_molecule(seed: u64, n1: usize, n2: usize, st: &mut Stats) {
    use rand::Rng;
    st.eval();
    let mut rng = crate::common::rng_for(seed, 1313);
    let cutoff = if rng.gen_bool(0.7) { Some(3.5) } else { None };
    let mut mk = |n: usize, off: f64| LJShape2 {
        name: "Random".into(),
        items: (0..n).map(|_| LJ2 { position: Point2::new(off + rng.gen_range(-4., 4.), rng.gen_range(-4., 4.)), sigma: rng.gen_range(0.5, 1.5), epsilon: rng.gen_range(0.5, 2.), cutoff }).collect(),
    };
    let mut a = mk(n1, 0.);
    let mut b = mk(n2, 9.);
    // half of the cases: particles stored in spatial order (a chain, a sorted cluster), and the
    // whole system in other units (nanometres, metres): lengths scaled by 1e-3..10
    if seed % 2 == 1 {
        a.items.sort_by(|p, q| p.position.x.partial_cmp(&q.position.x).unwrap());
        b.items.sort_by(|p, q| p.position.y.partial_cmp(&q.position.y).unwrap());
        let sc = [0.1, 0.25, 1e-3, 10., 0.5][((seed / 2) % 5) as usize];
        for m in [&mut a, &mut b].iter_mut() {
            for it in m.items.iter_mut() {
                it.position = Point2::new(it.position.x * sc, it.position.y * sc);
                it.sigma *= sc;
                it.cutoff = it.cutoff.map(|c| c * sc);
            }
        }
        // closer together: the gap between the molecules within a few cutoffs
        let shift = sc * [1.5, 3., 0.5][((seed / 10) % 3) as usize];
        for it in b.items.iter_mut() {
            it.position = Point2::new(it.position.x - 9. * sc + 8. * sc + shift, it.position.y);
        }
    }
    let case = json!({"seed": seed, "n1": n1, "n2": n2});
    st.nontrivial(hash64(&[79, seed, n1 as u64, n2 as u64]));
    for (x, y, name) in [(&a, &b, "a.energy(b)"), (&b, &a, "b.energy(a)")].iter() {
        let e = x.energy(y);
        let mut sum = 0.;
        let mut mag = 0.;
        for p in x.items.iter() {
            for qq in y.items.iter() {
                let v = p.energy(qq);
                sum += v;
                mag += v.abs();
            }
        }
        // (the order of a sum of n terms may change it by about n ulps of its magnitude)
        let npairs = (x.items.len() * y.items.len()) as f64;
        if !((e - sum).abs() <= 1e-11 * mag * (1. + npairs / 1000.) + 1e-300) {
            st.violation(Violation {
                kind: "c13.bigmol".into(),
                signature: "LJShape2::energy:not-sum-over-particle-pairs".into(),
                case: case.clone(),
                detail: json!({"call": name, "molecule_energy": e, "sum_of_pairs": sum, "particles": [x.items.len(), y.items.len()], "threads": rayon::current_num_threads()}),
            });
            return;
        }
    }
    st.count("molecules_with_many_particles");
}

pub fn check_molecule(c: &MolCase, st: &mut Stats) {
    st.eval();
    let base = if c.circle { LJShape2::circle() } else { LJShape2::from_trimer(c.radius, c.angle, c.distance) };
    if !c.circle {
        let sig: Vec<f64> = base.items.iter().map(|a| a.sigma).collect();
        let ok = base.items.len() == 3
            && (sig[0] - 2.).abs() <= 1e-15
            && (sig[1] - 2. * c.radius).abs() <= 1e-15 * (1. + c.radius)
            && (sig[2] - 2. * c.radius).abs() <= 1e-15 * (1. + c.radius)
            && base.items.iter().all(|a| a.cutoff == Some(3.5) && a.epsilon == 1.);
        if !ok {
            st.violation(Violation {
                kind: "c13.mol".into(),
                signature: "LJShape2::from_trimer:particle-parameters".into(),
                case: serde_json::to_value(c).unwrap(),
                detail: json!({"items": format!("{:?}", base.items)}),
            });
            return;
        }
    }
    let a = base.transform(&from_affine(&Affine { m: c.t1.0, t: c.t1.1 }));
    let b = base.transform(&from_affine(&Affine { m: c.t2.0, t: c.t2.1 }));
    let e = a.energy(&b);
    let mut sum = 0.;
    let mut mag = 0.;
    let mut inside = 0;
    for p in a.items.iter() {
        for qq in b.items.iter() {
            let v = p.energy(qq);
            sum += v;
            mag += v.abs();
            if v != 0. {
                inside += 1;
            }
        }
    }
    if inside > 0 {
        st.nontrivial(hash64(&[78, q(c.radius, 1e-5), q(c.angle, 1e-3), q(c.distance, 1e-5), q(c.t2.1[0], 1e-4), q(c.t2.1[1], 1e-4)]));
    }
    if !((e - sum).abs() <= 1e-12 * mag + 1e-300) {
        st.violation(Violation {
            kind: "c13.mol".into(),
            signature: "LJShape2::energy:not-sum-over-particle-pairs".into(),
            case: serde_json::to_value(c).unwrap(),
            detail: json!({"molecule_energy": e, "sum_of_pairs": sum}),
        });
        return;
    }
    // Shape::score of LJShape2 is the same sum
    if let Some(s) = a.score(&b) {
        if !((s - sum).abs() <= 1e-12 * mag + 1e-300) {
            st.violation(Violation {
                kind: "c13.mol".into(),
                signature: "LJShape2::score:not-sum-over-particle-pairs".into(),
                case: serde_json::to_value(c).unwrap(),
                detail: json!({"score": s, "sum_of_pairs": sum}),
            });
        }
    }
    st.sample(|| json!({"case": c, "molecule_energy": e, "pairs_inside_cutoff": inside}));
}

fn rand_motion<R: Rng>(rng: &mut R, spread: f64) -> ([[f64; 2]; 2], [f64; 2]) {
    let phi: f64 = rng.gen_range(0., 2. * PI);
    let (s, c) = phi.sin_cos();
    let m = if rng.gen_bool(0.7) { [[c, -s], [s, c]] } else { [[-c, -s], [-s, c]] };
    (m, [rng.gen_range(-spread, spread), rng.gen_range(-spread, spread)])
}

pub fn gen_mol<R: Rng>(rng: &mut R) -> MolCase {
    MolCase {
        radius: if rng.gen_bool(0.3) { 0.637556 } else { rng.gen_range(0.2, 1.2) },
        angle: if rng.gen_bool(0.3) { 120. } else { rng.gen_range(30., 180.) },
        distance: if rng.gen_bool(0.3) { 1. } else { rng.gen_range(0.3, 2.) },
        circle: rng.gen_bool(0.15),
        t1: rand_motion(rng, 1.),
        t2: rand_motion(rng, 5.),
    }
}

pub fn run(ctx: &Ctx) {
    ctx.set_rule("particle pairs: sigma 0.1-5 (and 1, 2, and all length scales 1e-9..1e3), epsilon 0.1-5, cutoff None/3.5/1.5-6, like and unlike pairs, r log-uniform 0.5-10 sigma and at the cutoff +-3 ulps / +-1e-6, random directions and origins, optional common rigid motion or reflection; checked: 12-6 law (1e-12 of the term scale) for like pairs, symmetry, exact zero at/after the cutoff, continuity just inside it, invariance under the motion; uncut minimum located by golden-section search on library values; molecule energy = sum of its particle-pair energies for circles and trimers over the CLI's ranges and for arbitrary molecules of 1..129 particles and of 257..131,073 all-different particles (both orders, inside the thread pool); non-trivial = separation inside the cutoff; distinct by quantised (r, sigma, epsilon, cutoff)");
    let n = ctx.tier.pick(30_000u64, 3_000_000u64);
    par_shards(ctx, 13, 64, |i, rng, st| {
        // molecules larger than any 8- or 16-bit index: tens of thousands of particles, all
        // different, against a probe of one or a few (a polydisperse cluster and a test particle)
        if i < 6 {
            let (n1, n2) = [(65_537usize, 1usize), (1, 70_000), (131_073, 2), (300, 300), (257, 256), (3, 66_000)][i as usize];
            check_big_molecule(rng.gen::<u64>(), n1, n2, st);
        }
        // both molecules large (hundreds of particles each; block-wise or tree code would start
        // here), half of them in spatial order and other units
        for _ in 0..3 {
            let (n1, n2) = (rng.gen_range(256, 700), rng.gen_range(256, 700));
            check_big_molecule(rng.gen::<u64>(), n1, n2, st);
        }
        for _ in 0..n {
            let c = gen_pair(rng);
            check_pair(&c, st);
        }
        for _ in 0..n / 10 {
            check_molecule(&gen_mol(rng), st);
        }
        for k in 0..(n / 3000).max(4) {
            let sizes = [1usize, 2, 3, 5, 17, 64, 70, 100, 129];
            let (n1, n2) = (sizes[rng.gen_range(0, sizes.len())], sizes[rng.gen_range(0, sizes.len())]);
            check_big_molecule(rng.gen::<u64>() ^ k, n1, n2, st);
        }
        for _ in 0..n / 200 {
            check_minimum(&MinCase { sigma: rng.gen_range(0.1, 5.), eps: rng.gen_range(0.1, 5.) }, st);
        }
    });
    ctx.set_min_nontrivial(10_000);
}

pub fn replay(ctx: &Ctx, kind: &str, case: &Value) {
    let mut st = Stats::new();
    match kind {
        "c13.pair" => {
            if let Ok(c) = serde_json::from_value::<PairCase>(case.clone()) {
                check_pair(&c, &mut st)
            }
        }
        "c13.min" => {
            if let Ok(c) = serde_json::from_value::<MinCase>(case.clone()) {
                check_minimum(&c, &mut st)
            }
        }
        "c13.bigmol" => {
            if let (Some(seed), Some(n1), Some(n2)) = (case["seed"].as_u64(), case["n1"].as_u64(), case["n2"].as_u64()) {
                check_big_molecule(seed, n1 as usize, n2 as usize, &mut st)
            }
        }
        "c13.mol" => {
            if let Ok(c) = serde_json::from_value::<MolCase>(case.clone()) {
                check_molecule(&c, &mut st)
            }
        }
        _ => {}
    }
    ctx.merge(st);
}
