//! C07 - moves are accepted according to the Metropolis rule.
use packing::traits::State;
use packing::{PackedState, PotentialState};
use rand::Rng;
use serde::{Deserialize, Serialize};
use serde_json::{json, Value};

use super::mc::{self, OptCfg, RunReport, ScriptedCase};
use crate::common::*;
use crate::libx::{self, lib_group, ShapeSpec};
use crate::observe::scripted::Script;
use crate::observe::trace::Decision;
use crate::oracle::groups;
use crate::oracle::stats;

#[derive(Clone, Debug, Serialize, Deserialize)]
pub enum Case {
    /// deterministic clauses on arbitrary histories at a known, constant temperature
    Scripted(ScriptedCase),
    Real { group: String, shape: ShapeSpec, lj: bool, cfg: OptCfg },
    /// probabilistic clause: probes worse by d at constant temperature kT
    Probe { k: usize, d: f64, kt: f64, probes: u64, loops: u64, seed: u64 },
    /// many one- and two-step runs with different seeds: acceptance of the (last) worse
    /// proposal conditioned on which parameter it moved and on the direction of the move
    /// before it - the draw that decides must be independent of the draws that proposed
    Short { k: usize, p: f64, steps: u64, first_seed: u64, runs: u64 },
    /// the far tail: every proposal is worse than the start by d = ratio x kT; a run of
    /// `steps` proposals "fires" when at least one of them was accepted (the returned state is
    /// not the input).  The number of firing runs is Binomial(runs, 1 - (1 - e^-ratio)^steps).
    Tail { ratio: f64, kt: f64, steps: u64, runs: u64, first_seed: u64 },
    /// cooled to nothing and far beyond: kT starts at `kt` and is multiplied by `1 - kt_ratio`
    /// every `inner` steps for `loops` loops (more than a 31-/32-bit counter holds); every
    /// proposal is worse by 1e300, so exp(-d/kT) = 0 at every temperature of the schedule and
    /// nothing may ever be accepted
    LongCold { kt: f64, kt_ratio: f64, loops: u64, inner: u64, seed: u64 },
}

/// lean state for the tail runs: no sink, no lock - score is 0 for the starting vector and
/// -d for anything else
pub struct TailState {
    vals: Vec<packing::SharedValue>,
    start: Vec<u64>,
    d: f64,
}
impl TailState {
    pub fn new(d: f64) -> Self {
        let vals: Vec<packing::SharedValue> = vec![packing::SharedValue::new(0.), packing::SharedValue::new(0.)];
        TailState { start: vals.iter().map(|v| v.get_value().to_bits()).collect(), vals, d }
    }
    fn moved(&self) -> bool {
        self.vals.iter().zip(self.start.iter()).any(|(v, s)| v.get_value().to_bits() != *s)
    }
}
impl State for TailState {
    fn score(&self) -> Option<f64> {
        if self.moved() {
            Some(-self.d)
        } else {
            Some(0.)
        }
    }
    fn generate_basis(&self) -> Vec<packing::StandardBasis> {
        self.vals.iter().map(|v| packing::StandardBasis::new(v, -1e6, 1e6)).collect()
    }
    fn total_shapes(&self) -> usize {
        1
    }
    fn as_positions(&self) -> Result<String, anyhow::Error> {
        Ok(String::new())
    }
}
impl Clone for TailState {
    fn clone(&self) -> Self {
        TailState { vals: self.vals.iter().map(|v| packing::SharedValue::new(v.get_value())).collect(), start: self.start.clone(), d: self.d }
    }
}
impl std::fmt::Debug for TailState {
    fn fmt(&self, f: &mut std::fmt::Formatter) -> std::fmt::Result {
        write!(f, "TailState")
    }
}
impl serde::Serialize for TailState {
    fn serialize<Z: serde::Serializer>(&self, s: Z) -> Result<Z::Ok, Z::Error> {
        s.serialize_unit()
    }
}
impl PartialEq for TailState {
    fn eq(&self, _: &Self) -> bool {
        true
    }
}
impl Eq for TailState {}
impl PartialOrd for TailState {
    fn partial_cmp(&self, _: &Self) -> Option<std::cmp::Ordering> {
        Some(std::cmp::Ordering::Equal)
    }
}
impl Ord for TailState {
    fn cmp(&self, _: &Self) -> std::cmp::Ordering {
        std::cmp::Ordering::Equal
    }
}
impl packing::traits::ToSVG for TailState {
    type Value = svg::Document;
    fn as_svg(&self) -> svg::Document {
        svg::Document::new()
    }
}

fn viol(what: &str, c: &Case, detail: Value) -> Violation {
    Violation { kind: "c07.run".into(), signature: format!("optimise_state:metropolis:{}", what), case: serde_json::to_value(c).unwrap(), detail }
}

/// deterministic clauses at temperature kt (constant during the run)
pub fn deterministic(c: &Case, kt: f64, resolved: &[Decision], st: &mut Stats) -> bool {
    for d in resolved {
        let cat = match d.new {
            None => "undefined",
            Some(n) if n > d.old => "better",
            Some(n) if n == d.old => "equal",
            Some(_) => "worse",
        };
        st.count(&format!("resolved[{}][{}]", cat, if d.accepted { "accepted" } else { "rejected" }));
        let det = |w: &str| json!({"clause": w, "proposal": d.step, "old_score": d.old, "new_score": d.new, "accepted": d.accepted, "kT": kt});
        match (cat, d.accepted) {
            ("undefined", true) => {
                st.violation(viol("accepted-undefined-score", c, det("a proposal without a defined score is never accepted")));
                return false;
            }
            ("better", false) => {
                st.violation(viol("rejected-better-score", c, det("a better score is always accepted")));
                return false;
            }
            ("equal", false) => {
                st.violation(viol("rejected-equal-score", c, det("an equal score is accepted")));
                return false;
            }
            ("worse", acc) => {
                let n = d.new.unwrap();
                let x = (d.old - n) / kt;
                if kt == 0. && acc {
                    st.violation(viol("accepted-worse-at-zero-temperature", c, det("never at kT = 0")));
                    return false;
                }
                if kt > 0. && x > 800. && acc {
                    st.violation(viol("accepted-with-vanishing-probability", c, det("exp(-d/kT) underflows to 0")));
                    return false;
                }
                if kt > 0. && x < 1e-17 && !acc {
                    st.violation(viol("rejected-with-probability-one", c, det("exp(-d/kT) rounds to 1")));
                    return false;
                }
            }
            _ => {}
        }
    }
    true
}

fn judge_plain(c: &Case, cfg: &OptCfg, r: &RunReport, st: &mut Stats) {
    st.eval();
    if r.panicked.is_some() {
        st.count("runs_that_panicked(not a C07 event; C20 decides)");
        return;
    }
    if !r.resolved.is_empty() {
        st.nontrivial(hash64(&[hash_str(&serde_json::to_string(c).unwrap_or_default())]));
    }
    if deterministic(c, cfg.kt_start, &r.resolved, st) {
        st.sample(|| json!({"case": c, "resolved_decisions": r.resolved.len()}));
    }
}

pub fn probe_case(k: usize, d: f64, kt: f64, probes: u64, loops: u64, seed: u64) -> ScriptedCase {
    // wide bounds, small steps, interior start: no clamping, unique proposals
    // (range 2e6 with steps of 1e-6 of it: a random walk of 1e7 accepted unit moves stays far
    // from the bounds)
    let init = vec![0.; k];
    let bounds = vec![(-1e6, 1e6); k];
    let steps = 3 * probes;
    let inner = (steps / loops.max(1)).max(3);
    ScriptedCase {
        init,
        bounds,
        script: Script::Probe { d: vec![d], inner, jam: vec![] },
        cfg: OptCfg { steps, inner_steps: inner, kt_start: kt, kt_finish: None, kt_ratio: Some(0.), max_step_size: 1e-6, seed, convergence: None, builder_history: None },
        via_api: false, aliases: vec![], score_offset: 0.,
    }
}

/// accept flags of the resolved probe decisions, in step order, with the mean d actually used
pub fn probe_outcomes(r: &RunReport) -> (Vec<(usize, bool)>, f64) {
    let mut v: Vec<(usize, bool, f64)> = r
        .resolved
        .iter()
        .filter(|d| r.labels.get(d.step).copied() == Some('P') && d.new.is_some())
        .map(|d| (d.step, d.accepted, d.old - d.new.unwrap()))
        .collect();
    v.sort_by_key(|x| x.0);
    let dmean = if v.is_empty() { 0. } else { v.iter().map(|x| x.2).sum::<f64>() / v.len() as f64 };
    (v.into_iter().map(|x| (x.0, x.1)).collect(), dmean)
}

pub fn check(c: &Case, st: &mut Stats) {
    match c {
        Case::Scripted(sc) => {
            let r = mc::run_scripted(sc, false);
            judge_plain(c, &sc.cfg, &r, st);
        }
        Case::Real { group, shape, lj, cfg } => {
            let wg = match lib_group(group) {
                Ok(g) => g,
                Err(e) => {
                    st.inconclusive.push(e);
                    return;
                }
            };
            macro_rules! go {
                ($state:expr) => {{
                    match $state {
                        Ok(s0) => {
                            if s0.score().map(|x| x.is_finite()) != Some(true) {
                                return;
                            }
                            let rr = mc::run_real(s0, cfg, None, false, false);
                            judge_plain(c, cfg, &rr.report, st);
                        }
                        Err(e) => st.inconclusive.push(e.to_string()),
                    }
                }};
            }
            if *lj {
                if let Some(s) = shape.lj() {
                    go!(PotentialState::from_group(s, &wg))
                }
            } else if let Some(s) = shape.line() {
                go!(PackedState::from_group(s, &wg))
            } else if let Some(s) = shape.mol() {
                go!(PackedState::from_group(s, &wg))
            }
        }
        Case::LongCold { kt, kt_ratio, loops, inner, seed } => {
            st.eval();
            let mut b = packing::BuildOptimiser::default();
            b.steps(loops * inner).inner_steps(*inner).kt_start(*kt).kt_ratio(Some(*kt_ratio)).max_step_size(1e-6).seed(*seed);
            let out = std::panic::catch_unwind(std::panic::AssertUnwindSafe(|| {
                let fin = b.build().optimise_state(TailState::new(1e300));
                crate::observe::spy::params_of(&fin).iter().any(|x| *x != 0.)
            }));
            st.add("proposals_in_long_cold_runs", loops * inner);
            st.nontrivial(hash64(&[*loops, *inner, *seed, q(*kt_ratio, 1e-9)]));
            if let Ok(true) = out {
                st.violation(viol("accepted-with-probability-zero", c, json!({"what": "every proposal is worse by 1e300: exp(-d/kT) underflows to 0 at every temperature of the schedule, yet a proposal was accepted", "loops": loops, "inner_steps": inner})));
            }
        }
        Case::Tail { ratio, kt, steps, runs, first_seed } => {
            use rayon::prelude::*;
            st.eval();
            let d = ratio * kt;
            let fired: u64 = (0..*runs)
                .into_par_iter()
                .map(|r| {
                    let mut b = packing::BuildOptimiser::default();
                    b.steps(*steps).inner_steps(*steps).kt_start(*kt).kt_ratio(Some(0.)).max_step_size(1e-6).seed(first_seed + r);
                    let out = std::panic::catch_unwind(std::panic::AssertUnwindSafe(|| {
                        let fin = b.build().optimise_state(TailState::new(d));
                        // the opaque result: its parameters tell whether anything was ever accepted
                        crate::observe::spy::params_of(&fin).iter().any(|x| *x != 0.)
                    }));
                    matches!(out, Ok(true)) as u64
                })
                .sum();
            let p_step = (-ratio).exp();
            let p_run = 1. - (1. - p_step).powf(*steps as f64);
            st.add("tail_proposals", runs * steps);
            st.nontrivial(hash64(&[q(*ratio, 1e-6), q(kt.ln(), 1e-6), *steps, *runs]));
            let bound = stats::tail_bound(fired, *runs, p_run);
            if bound < 1e-12 {
                st.violation(viol(
                    "tail-acceptance-frequency-is-not-exp(-d/kT)",
                    c,
                    json!({"d_over_kT": ratio, "per_proposal_probability": p_step, "runs": runs, "proposals_per_run": steps, "runs_with_an_acceptance": fired, "expected": p_run * *runs as f64, "chernoff_bound": bound}),
                ));
                return;
            }
            st.sample(|| json!({"case": c, "runs_with_an_acceptance": fired, "expected": p_run * *runs as f64}));
        }
        Case::Short { k, p, steps, first_seed, runs } => {
            st.eval();
            let d = -p.ln();
            let pattern = if *steps == 1 { "W" } else { "BW" };
            // cells: (moved coordinate of the last proposal, direction of the previous move)
            let mut cells: std::collections::BTreeMap<(usize, i8), (u64, u64)> = Default::default();
            for r in 0..*runs {
                let sc = ScriptedCase {
                    init: vec![0.; *k],
                    bounds: vec![(-1e6, 1e6); *k],
                    // 'B' climbs one rung above the start and 'W' goes one rung below it: in
                    // the two-step pattern the worse proposal is two rungs below the current
                    // state, so the rung is d/2 there
                    script: Script::Pattern { pattern: pattern.into(), gap: if *steps == 1 { d } else { d / 2. } },
                    cfg: OptCfg { steps: *steps, inner_steps: *steps, kt_start: 1., kt_finish: Some(1.), kt_ratio: Some(0.), max_step_size: 1e-6, seed: first_seed + r, convergence: None, builder_history: None },
                    via_api: true, aliases: vec![], score_offset: 0.,
                };
                let rep = mc::run_scripted(&sc, true);
                if rep.panicked.is_some() || rep.log.len() < *steps as usize + 1 {
                    continue;
                }
                let last = &rep.log[*steps as usize].0;
                let prev = &rep.log[*steps as usize - 1].0;
                let moved: Vec<usize> = (0..*k).filter(|i| last[*i] != prev[*i]).collect();
                if moved.len() != 1 {
                    continue;
                }
                let dir: i8 = if *steps == 1 {
                    0
                } else {
                    let first = &rep.log[1].0;
                    let c0: Vec<usize> = (0..*k).filter(|i| first[*i] != rep.log[0].0[*i]).collect();
                    if c0.len() != 1 {
                        continue;
                    }
                    if f64::from_bits(first[c0[0]]) > f64::from_bits(rep.log[0].0[c0[0]]) {
                        1
                    } else {
                        -1
                    }
                };
                let accepted = match &rep.returned {
                    Some(v) => v.iter().map(|x| x.to_bits()).collect::<Vec<_>>() == *last,
                    None => continue,
                };
                let e = cells.entry((moved[0], dir)).or_insert((0, 0));
                e.1 += 1;
                if accepted {
                    e.0 += 1;
                }
            }
            st.add("short_runs", *runs);
            st.nontrivial(hash64(&[*k as u64, q(*p, 1e-6), *steps, *first_seed]));
            for ((coord, dir), (acc, n)) in cells.iter() {
                let bound = stats::tail_bound(*acc, *n, *p);
                if bound < 1e-12 {
                    st.violation(viol(
                        "acceptance-depends-on-the-proposal-it-decides",
                        c,
                        json!({"expected_probability": p, "moved_parameter": coord, "direction_of_previous_move": dir, "accepted": acc, "of": n, "observed_frequency": *acc as f64 / (*n).max(1) as f64, "chernoff_bound": bound,
                               "all_cells": cells.iter().map(|(k, v)| json!({"parameter": k.0, "previous_direction": k.1, "accepted": v.0, "of": v.1})).collect::<Vec<_>>() }),
                    ));
                    return;
                }
            }
            st.sample(|| json!({"case": c, "cells": cells.iter().map(|(k, v)| json!({"parameter": k.0, "previous_direction": k.1, "accepted": v.0, "of": v.1})).collect::<Vec<_>>() }));
        }
        Case::Probe { k, d, kt, probes, loops, seed } => {
            st.eval();
            let sc = probe_case(*k, *d, *kt, *probes, *loops, *seed);
            // small runs also feed the general monitor (deterministic clauses on every step)
            let r = mc::run_probe(&sc, *probes <= 50_000);
            if r.panicked.is_some() {
                st.count("runs_that_panicked(not a C07 event; C20 decides)");
                return;
            }
            if let Some(m) = &r.monitor {
                if !deterministic(c, *kt, &m.resolved, st) {
                    return;
                }
            }
            let t = &r.tally;
            let n: u64 = t.per_loop.iter().map(|x| x.1).sum();
            let acc: u64 = t.per_loop.iter().map(|x| x.0).sum();
            let dmean = if n > 0 { t.d_sum.iter().sum::<f64>() / n as f64 } else { *d };
            st.add("probes_resolved", n);
            st.add("probes_issued", t.probes_seen);
            st.add("probes_dropped_as_ambiguous(1/k^2)", t.dropped_ambiguous);
            st.add("probe_anomalies", t.anomalies);
            let flags = &t.flags;
            let p = (-dmean / kt).exp();
            if n >= 10_000 {
                st.nontrivial(hash64(&[*k as u64, q(*d / *kt, 1e-9), q(kt.ln(), 1e-9), *seed]));
            }
            let bound = stats::tail_bound(acc, n, p);
            let rho = stats::lag1_autocorr(flags);
            st.count(&format!("cells[d/kT={}]", d / kt));
            if bound < 1e-12 {
                st.violation(viol("acceptance-frequency-is-not-exp(-d/kT)", c, json!({"d": dmean, "kT": kt, "expected_probability": p, "accepted": acc, "of": n, "observed_frequency": acc as f64 / n.max(1) as f64, "chernoff_bound_on_probability_of_this_deviation": bound})));
                return;
            }
            if n >= 1000 && rho.abs() > 7. / (n as f64).sqrt() && p > 0.02 && p < 0.98 {
                st.violation(viol("acceptance-draws-are-not-independent-per-step", c, json!({"lag1_autocorrelation": rho, "limit": 7. / (n as f64).sqrt(), "n": n})));
                return;
            }
            st.sample(|| json!({"case": c, "expected_probability": p, "accepted": acc, "of": n, "lag1_autocorrelation": rho, "bound": bound}));
        }
    }
}

pub fn run(ctx: &Ctx) {
    ctx.set_rule("deterministic clauses on every resolved decision of scripted histories (better / equal / worse / undefined scores in adversarial orders) and of real hard/LJ states at a known constant temperature (kt_ratio = 0 or a single loop): undefined never accepted, better and equal always accepted, worse never accepted at kT = 0 nor when d/kT > 800, always when d/kT < 1e-17. Probabilistic clause: anchor/probe/sentinel scripts (anchor strictly better: always accepted; probe = anchor - d: the observation; sentinel undefined: certain rejection, so the probe's fate is read off the next vectors) at d/kT in {0.05,0.2,0.5,1,2,4,8} x kT in {1e-6,1e-3,0.1,0.5,10,1e6} x k in {4,16}, one loop and several loops; acceptance count vs Binomial(n, exp(-d/kT)) flagged only when the Chernoff/KL bound is < 1e-12; lag-1 autocorrelation of the accept sequence within 7/sqrt(n). Short runs: thousands of one- and two-step runs with different seeds, the acceptance of the worse proposal tallied per moved parameter and per direction of the preceding move (the deciding draw must not be correlated with the proposing draws). Far tail: runs in which every proposal is worse by d = 10..22 kT; the number of runs with at least one acceptance is compared with Binomial(runs, 1 - (1 - e^(-d/kT))^steps) (quick: 1.5e10 proposals at d = 20.05 kT, p = 2e-9; thorough: up to 7e11 proposals at d = 24 kT, p = 4e-11). Cooled to nothing and far beyond: one-step loops cooling by a factor 0.5/0.99/0.001 for more than 2^31 (thorough: also 2^32) loops, every proposal worse by 1e300, nothing may be accepted at any temperature of the schedule. Non-trivial = (d,kT) cells with >= 1e4 resolved probes, and runs with resolved decisions; distinct by cell/case");
    ctx.assume("a statistical clause: deviations below the resolution of n probes are invisible; the false-alarm probability per cell is < 1e-12 by construction");
    let n_s = ctx.tier.pick(40u64, 2_000u64);
    let n_r = ctx.tier.pick(4u64, 150u64);
    let probes = ctx.tier.pick(20_000u64, 1_000_000u64);
    let prev = std::panic::take_hook();
    std::panic::set_hook(Box::new(|_| {}));
    par_shards(ctx, 7, 64, |_, rng, st| {
        for _ in 0..n_s {
            let kt = mc::rand_kt(rng);
            let mut sc = mc::rand_scripted_case(rng, kt, 20_000);
            // temperature known and constant
            sc.cfg.kt_ratio = Some(0.);
            mc::maybe_start_outside(rng, &mut sc, 0.15);
            check(&Case::Scripted(sc), st);
        }
        for _ in 0..n_r {
            let kt = mc::rand_kt(rng);
            let mut cfg = mc::rand_cfg(rng, kt, 4000);
            cfg.kt_ratio = Some(0.);
            cfg.max_step_size = 10f64.powf(rng.gen_range(-3., -0.5));
            let lj = rng.gen_bool(0.4);
            let shape = if lj { ShapeSpec::Trimer { radius: 0.637556, angle: 120., distance: 1. } } else { libx::gen::hard_shape(rng) };
            check(&Case::Real { group: groups::NAMES[rng.gen_range(0, 7)].to_string(), shape, lj, cfg }, st);
        }
    });
    // the probe grid
    let ratios = [0.05, 0.2, 0.5, 1., 2., 4., 8.];
    let kts = [1e-6, 1e-3, 0.1, 0.5, 10., 1e6];
    let mut cells = vec![];
    for (i, r) in ratios.iter().enumerate() {
        for (j, kt) in kts.iter().enumerate() {
            for (m, k) in [4usize, 16].iter().enumerate() {
                cells.push((*k, r * kt, *kt, if (i + j + m) % 3 == 0 { 7u64 } else { 1u64 }));
            }
        }
    }
    let seed = ctx.seed;
    {
        use rayon::prelude::*;
        let all: Vec<Stats> = cells
            .par_iter()
            .enumerate()
            .map(|(i, (k, d, kt, loops))| {
                let mut st = Stats::new();
                check(&Case::Probe { k: *k, d: *d, kt: *kt, probes, loops: *loops, seed: seed.wrapping_mul(1000).wrapping_add(i as u64) }, &mut st);
                st
            })
            .collect();
        for s in all {
            ctx.merge(s);
        }
    }
    // short runs over many seeds
    {
        use rayon::prelude::*;
        let runs = ctx.tier.pick(6_000u64, 200_000u64);
        let mut shorts = vec![];
        for (i, k) in [2usize, 3, 6].iter().enumerate() {
            for (j, p) in [0.2, 0.5, 0.8].iter().enumerate() {
                for steps in [1u64, 2].iter() {
                    shorts.push(Case::Short { k: *k, p: *p, steps: *steps, first_seed: seed.wrapping_mul(1_000_003).wrapping_add((i * 10 + j) as u64 * 10_000_000), runs });
                }
            }
        }
        let all: Vec<Stats> = shorts
            .par_iter()
            .map(|c| {
                let mut st = Stats::new();
                check(c, &mut st);
                st
            })
            .collect();
        for s in all {
            ctx.merge(s);
        }
    }
    // cooled to nothing and far beyond, on threads of their own while the tails run
    let long_cold: Vec<std::thread::JoinHandle<Stats>> = (0..ctx.tier.pick(1u64, 6u64))
        .map(|i| {
            let loops = if i % 3 == 2 { (1u64 << 32) + 50_000 + i } else { (1u64 << 31) + 50_000 + i };
            let c = Case::LongCold { kt: [1., 1e-3, 50.][(i % 3) as usize], kt_ratio: [0.5, 0.01, 0.999][((i + seed) % 3) as usize], loops, inner: 1, seed: seed.wrapping_mul(31).wrapping_add(i) };
            std::thread::spawn(move || {
                let mut st = Stats::new();
                check(&c, &mut st);
                st
            })
        })
        .collect();
    // the far tail of the acceptance probability (rare acceptances must still happen)
    {
        let tails: Vec<(f64, u64, u64)> = match ctx.tier {
            Tier::Quick => vec![(10., 20_000, 4_000), (14., 100_000, 3_000), (17., 1_000_000, 1_000), (20.05, 1_000_000, 15_000)],
            Tier::Thorough => vec![(10., 20_000, 40_000), (14., 100_000, 30_000), (17., 1_000_000, 12_000), (20.05, 1_000_000, 15_000), (22., 4_000_000, 28_000), (24., 16_000_000, 46_000)],
        };
        for (i, (ratio, steps, runs)) in tails.iter().enumerate() {
            let mut st = Stats::new();
            check(&Case::Tail { ratio: *ratio, kt: [0.5, 1e-3, 10.][i % 3], steps: *steps, runs: *runs, first_seed: seed.wrapping_mul(7_000_003).wrapping_add(i as u64 * 1_000_000_000) }, &mut st);
            ctx.merge(st);
        }
    }
    for h in long_cold {
        match h.join() {
            Ok(st) => ctx.merge(st),
            Err(_) => ctx.inconclusive("a long cold run did not finish"),
        }
    }
    std::panic::set_hook(prev);
    ctx.set_min_nontrivial(60);
}

pub fn replay(ctx: &Ctx, case: &Value) {
    let prev = std::panic::take_hook();
    std::panic::set_hook(Box::new(|_| {}));
    let mut st = Stats::new();
    if let Ok(c) = serde_json::from_value::<Case>(case.clone()) {
        check(&c, &mut st);
    }
    std::panic::set_hook(prev);
    ctx.merge(st);
}
