//! C02 - the hard-packing score is the true packing fraction, and never exceeds 1.
use std::f64::consts::PI;

use packing::traits::{Basis, Intersect, State};
use rand::Rng;
use serde::{Deserialize, Serialize};
use serde_json::{json, Value};

use super::c01;
use super::hard;
use super::history::{self, History};
use packing::PackedState;
use crate::common::*;
use crate::libx::{self, build_packed, HardGeom, Params, ShapeSpec};
use crate::oracle::geom::{self, OShape};
use crate::oracle::groups;

pub const REL: f64 = 1e-9;

/// area of the intersection of two discs
fn lens_area(r1: f64, r2: f64, d: f64) -> f64 {
    if d >= r1 + r2 {
        0.
    } else if d <= (r1 - r2).abs() {
        PI * r1.min(r2).powi(2)
    } else {
        let a1 = ((d * d + r1 * r1 - r2 * r2) / (2. * d * r1)).max(-1.).min(1.).acos();
        let a2 = ((d * d + r2 * r2 - r1 * r1) / (2. * d * r2)).max(-1.).min(1.).acos();
        r1 * r1 * a1 + r2 * r2 * a2 - 0.5 * ((-d + r1 + r2) * (d + r1 - r2) * (d - r1 + r2) * (d + r1 + r2)).max(0.).sqrt()
    }
}

/// what the known defect computes: inclusion-exclusion over pairs, without the triple term
fn pairwise_area(d: &[([f64; 2], f64)]) -> f64 {
    let mut a: f64 = d.iter().map(|(_, r)| PI * r * r).sum();
    for i in 0..d.len() {
        for j in i + 1..d.len() {
            a -= lens_area(d[i].1, d[j].1, geom::dist(d[i].0, d[j].0));
        }
    }
    a
}

/// `got`: the area the library reports.  The open finding is one specific wrong value - the
/// pairwise sum where three discs share a point; any other value there is a different defect.
fn area_signature(o: &OShape, got: f64) -> String {
    match o {
        OShape::Poly(_) => "LineShape::area:wrong".into(),
        OShape::Discs(d) => {
            // a common point of three discs also covers "two contained discs that overlap"
            if geom::triple_common_point(d) {
                // (1e-6: at a tangency the lens formula's square root and arc cosine turn one
                // ulp of the distance into 1e-8..1e-7 of the area)
                if rel_diff(got, pairwise_area(d)) <= 1e-6 {
                    "MolecularShape2::area:three-discs-share-a-point".into()
                } else {
                    "MolecularShape2::area:three-discs-share-a-point:and-not-the-pairwise-sum-either".into()
                }
            } else if geom::any_containment(d) {
                "MolecularShape2::area:disc-contained-in-another".into()
            } else {
                "MolecularShape2::area:wrong".into()
            }
        }
    }
}

#[derive(Clone, Debug, Serialize, Deserialize)]
pub struct AreaCase {
    pub shape: ShapeSpec,
}

/// Relative accuracy that can be asked of a disc-union area: 1e-9, but 1e-6 when two discs
/// touch (from outside or inside) to within 1e-6 of their size - there any formula in terms of
/// chord distances loses half its digits to a square root.
fn area_tolerance(o: &OShape) -> f64 {
    if let OShape::Discs(d) = o {
        for i in 0..d.len() {
            for j in i + 1..d.len() {
                let dist = geom::dist(d[i].0, d[j].0);
                let (r1, r2) = (d[i].1, d[j].1);
                let scale = 1e-6 * (r1 + r2);
                if (dist - (r1 + r2)).abs() <= scale || (dist - (r1 - r2).abs()).abs() <= scale {
                    return 1e-6;
                }
            }
        }
    }
    REL
}

fn check_area_generic<S: HardGeom>(s: &S, c: &AreaCase, st: &mut Stats) {
    st.eval();
    let o = s.oshape();
    let want = o.area();
    let got = s.area();
    let nontrivial = match &o {
        OShape::Poly(_) => true,
        OShape::Discs(d) => d.len() > 1 && (0..d.len()).any(|i| (i + 1..d.len()).any(|j| geom::dist(d[i].0, d[j].0) < d[i].1 + d[j].1)),
    };
    if nontrivial {
        st.nontrivial(hash_str(&serde_json::to_string(&c.shape).unwrap_or_default()));
    }
    if let OShape::Discs(d) = &o {
        if geom::any_containment(d) {
            st.count("trimers_with_containment");
        } else if geom::triple_common_point(d) {
            st.count("trimers_with_triple_overlap");
        } else if nontrivial {
            st.count("trimers_with_pairwise_lenses_only");
        }
    }
    if !(rel_diff(got, want) <= area_tolerance(&o)) {
        st.violation(Violation {
            kind: "c02.area".into(),
            signature: area_signature(&o, got),
            case: serde_json::to_value(c).unwrap(),
            detail: json!({"library_area": got, "oracle_area": want, "pairwise_sum(the open finding's value)": match &o { OShape::Discs(d) => Some(pairwise_area(d)), _ => None }, "geometry": format!("{:?}", o)}),
        });
    } else {
        st.sample(|| json!({"case": c, "library_area": got, "oracle_area": want}));
    }
}

pub fn check_area(c: &AreaCase, st: &mut Stats) {
    if let Some(s) = c.shape.line() {
        check_area_generic(&s, c, st)
    } else if let Some(s) = c.shape.mol() {
        check_area_generic(&s, c, st)
    }
}

pub fn gen_area_case<R: Rng>(rng: &mut R) -> AreaCase {
    let shape = match rng.gen_range(0, 10) {
        0 => ShapeSpec::Polygon { sides: rng.gen_range(3, 65) },
        1 | 2 => {
            let n = rng.gen_range(3, 25);
            // star shapes included (non-convex but star-shaped about the origin)
            ShapeSpec::Radial { radii: (0..n).map(|_| rng.gen_range(0.2, 2.)).collect() }
        }
        3 => ShapeSpec::Circle,
        4 if rng.gen_bool(0.5) => {
            // tangencies as a user types them: radius and distance decimals that add up to the
            // central disc's radius (inside) or differ by it (outside), where the sum of the two
            // doubles falls an ulp either side of 1
            let k = rng.gen_range(1, 1000);
            let radius = k as f64 / 1000.;
            let distance = if rng.gen_bool(0.7) { (1000 - k) as f64 / 1000. } else { (1000 + k) as f64 / 1000. };
            ShapeSpec::Trimer { radius, angle: [120., 90., 60., 180., 45., 30.][rng.gen_range(0, 6)], distance }
        }
        4 => {
            // exact ties: coincident outer discs (angle 0), discs touching from inside or
            // outside, equal radii, all three on one point
            let radius: f64 = [0.25, 0.5, 0.637556, 1.0, 1.5][rng.gen_range(0, 5)];
            let distance = match rng.gen_range(0, 5) {
                0 => 1. - radius,
                1 => 1. + radius,
                2 => 0.,
                3 => (1. - radius).abs(),
                _ => rng.gen_range(0.1, 2.5),
            };
            ShapeSpec::Trimer { radius, angle: [0., 0., 180., 360., 90.][rng.gen_range(0, 5)], distance: distance.max(0.) }
        }
        _ => ShapeSpec::Trimer {
            radius: rng.gen_range(0.1, 1.5),
            angle: rng.gen_range(10., 180.),
            distance: rng.gen_range(0.1, 2.5),
        },
    };
    AreaCase { shape }
}

#[derive(Clone, Debug, Serialize, Deserialize)]
pub struct StateCase {
    pub group: String,
    pub shape: ShapeSpec,
    pub params: Params,
}

fn check_state_generic<S: HardGeom>(shape: S, c: &StateCase, find_contact: bool, st: &mut Stats) {
    let mut p = c.params;
    let state = match build_packed(shape, &c.group, &p) {
        Ok(s) => s,
        Err(e) => {
            st.inconclusive.push(e);
            return;
        }
    };
    if find_contact {
        // shrink to just outside first contact so that fractions are high
        let mut basis = state.generate_basis();
        let r = state.shape.oshape().enclosing_radius();
        let copies = groups::group(&c.group).unwrap().ops.len() as f64;
        let mut hi = 8. * r * copies / p.ratio.min(1.) + 1.;
        basis[0].set_value(hi);
        if hard::contact_of(&state).depth > 0. {
            return;
        }
        let mut lo = hi;
        let mut found = false;
        for _ in 0..200 {
            lo *= 0.85;
            basis[0].set_value(lo);
            if hard::contact_of(&state).depth > 0. {
                found = true;
                break;
            }
            hi = lo;
        }
        if !found {
            return;
        }
        for _ in 0..30 {
            let mid = 0.5 * (lo + hi);
            basis[0].set_value(mid);
            if hard::contact_of(&state).depth > 0. {
                lo = mid;
            } else {
                hi = mid;
            }
        }
        basis[0].set_value(hi * (1. + 1e-7));
        p.len = basis[0].get_value();
    }
    let case = StateCase { group: c.group.clone(), shape: c.shape.clone(), params: p };
    judge_score(&state, &case, st);
}

/// the comparison proper: the score of a state the oracle finds to be a packing against
/// copies x true shape area / |A x B|, everything read from the state in hand
pub fn judge_score<S: HardGeom>(state: &PackedState<S>, c: &StateCase, st: &mut Stats) {
    let p = c.params;
    st.eval();
    let view = hard::view(state);
    let contact = hard::deepest_contact(&view.shape, &view.placements, &view.lattice);
    if !(contact.depth < c01::TOL) {
        st.count("states_skipped_not_a_packing");
        return;
    }
    let score = match state.score() {
        Some(s) => s,
        None => {
            st.count("oracle_valid_but_library_rejects(not a C02 event)");
            return;
        }
    };
    let want = view.copies as f64 * view.shape.area() / view.lattice.area();
    let case = c.clone();
    let oblique = (view.lattice.theta - PI / 2.).abs() > 1e-9;
    let lens = matches!(&view.shape, OShape::Discs(d) if d.len() > 1);
    if oblique || lens {
        st.nontrivial(hash64(&[hash_str(&c.group), hash_str(&serde_json::to_string(&c.shape).unwrap_or_default()), hash64(&p.quant())]));
    }
    let bucket = if want > 0.8 { ">0.8" } else if want > 0.5 { "0.5-0.8" } else { "<0.5" };
    st.count(&format!("valid_states_by_true_packing_fraction[{}]", bucket));
    let rel = area_tolerance(&view.shape);
    if !(rel_diff(score, want) <= rel) || !(score <= 1. + rel) {
        // attribute: shape area, cell area, copy count?
        let lib_area = state.shape.area();
        let sig = if !(rel_diff(lib_area, view.shape.area()) <= rel) {
            area_signature(&view.shape, lib_area)
        } else if !(rel_diff(state.cell.area(), view.lattice.area()) <= REL) {
            "Cell2::area:wrong".to_string()
        } else if state.total_shapes() != view.copies {
            "PackedState::total_shapes:wrong".to_string()
        } else {
            "PackedState::score:not-the-packing-fraction".to_string()
        };
        st.violation(Violation {
            kind: "c02.state".into(),
            signature: sig,
            case: serde_json::to_value(&case).unwrap(),
            detail: json!({"library_score": score, "true_packing_fraction": want, "copies": view.copies,
                "oracle_shape_area": view.shape.area(), "library_shape_area": lib_area,
                "oracle_cell_area": view.lattice.area(), "library_cell_area": state.cell.area(), "deepest_contact": contact.to_json()}),
        });
    } else {
        st.sample(|| json!({"case": case, "library_score": score, "true_packing_fraction": want}));
        // "two states of the same shape are ranked by their real density": the same crystal in
        // a cell k times longer is a packing of density 1/k^2 times this one; the states' own
        // ordering (what the CLI picks its best replica with) must say so
        let k = [1.000001, 1.0001, 1.05, 1.5, 4.][(hash64(&p.quant()) % 5) as usize];
        let mut p2 = p;
        p2.len = p.len * k;
        let dilute = match build_packed(state.shape.clone(), &c.group, &p2) {
            Ok(d) => d,
            Err(_) => return,
        };
        if let Some(s2) = dilute.score() {
            st.count("pairs_of_states_ranked");
            let by_order = state.partial_cmp(&dilute);
            let best_is_dense = std::cmp::max(dilute.clone(), state.clone()).score() == Some(score) && std::cmp::max(state.clone(), dilute.clone()).score() == Some(score);
            if by_order != Some(std::cmp::Ordering::Greater) || !(state > &dilute) || state == &dilute || !best_is_dense || !(rel_diff(s2 * k * k, score) <= 1e-9) {
                st.violation(Violation {
                    kind: "c02.state".into(),
                    signature: "PackedState::cmp:not-ranked-by-density".into(),
                    case: serde_json::to_value(&case).unwrap(),
                    detail: json!({"score": score, "score_of_the_same_crystal_in_a_cell_k_times_longer": s2, "k": k, "partial_cmp": format!("{:?}", by_order), "max_picks_the_denser": best_is_dense}),
                });
            }
        }
    }
}

pub fn check_state(c: &StateCase, find_contact: bool, st: &mut Stats) {
    if let Some(s) = c.shape.line() {
        check_state_generic(s, c, find_contact, st)
    } else if let Some(s) = c.shape.mol() {
        check_state_generic(s, c, find_contact, st)
    }
}

fn selftest_union_area(ctx: &Ctx) -> bool {
    let mut rng = ctx.rng(9002);
    for _ in 0..40 {
        let spec = ShapeSpec::Trimer { radius: rng.gen_range(0.1, 1.5), angle: rng.gen_range(10., 180.), distance: rng.gen_range(0.1, 2.5) };
        if let Some(OShape::Discs(d)) = spec.mol().map(|m| m.oshape()) {
            let exact = geom::union_area(&d);
            let grid = geom::union_area_grid(&d, 1200);
            if rel_diff(exact, grid) > 4e-3 {
                ctx.inconclusive(&format!("union-of-discs oracle disagrees with grid count: {} vs {} for {:?}", exact, grid, spec));
                return false;
            }
        }
    }
    true
}

/// Cell2::area() over all four crystal families (cells read from JSON)
fn check_cell_area<R: Rng>(rng: &mut R, st: &mut Stats) {
    st.eval();
    let fam = ["Monoclinic", "Orthorhombic", "Hexagonal", "Tetragonal"][rng.gen_range(0, 4)];
    let (len, ratio) = (10f64.powf(rng.gen_range(-2., 2.)), if rng.gen_bool(0.3) { 1. } else { rng.gen_range(0.1, 1.) });
    let angle = match fam {
        "Hexagonal" => PI / 3.,
        "Monoclinic" => rng.gen_range(PI / 6., PI / 2.),
        _ => PI / 2.,
    };
    let v = json!({"length": len, "ratio": ratio, "angle": angle, "family": fam});
    if let Ok(cell) = serde_json::from_value::<packing::Cell2>(v.clone()) {
        let want = len * len * ratio * angle.sin();
        let got = cell.area();
        st.nontrivial(hash64(&[q(len, 1e-6), q(ratio, 1e-6), q(angle, 1e-6), hash_str(fam)]));
        if !(rel_diff(got, want) <= REL) {
            st.violation(Violation { kind: "c02.cell".into(), signature: "Cell2::area:wrong".into(), case: v, detail: json!({"library": got, "a*b*sin(angle)": want}) });
        }
    }
}

/// States with several occupied sites of different multiplicity, in any order (public
/// `PackedState::initialise` with hand-made Wyckoff sites): the score is still (number of copies
/// placed) x area / cell area.
pub fn check_multi_site(seed: u64, st: &mut Stats) {
    use packing::wallpaper::{Wallpaper, WyckoffSite};
    use packing::{CrystalFamily, LineShape, Transform2};
    st.eval();
    let mut rng = crate::common::rng_for(seed, 222);
    let group = ["p2", "p1", "p2mg", "p1m1", "p2gg"][rng.gen_range(0, 5)];
    let wg = match libx::lib_group(group) {
        Ok(g) => g,
        Err(_) => return,
    };
    let general = match WyckoffSite::new(&wg) {
        Ok(s) => s,
        Err(_) => return,
    };
    let flags = (rng.gen_range(0u64, 5), rng.gen_bool(0.3), rng.gen_bool(0.3));
    let one = |ops: &[&str]| WyckoffSite { letter: 'b', symmetries: ops.iter().filter_map(|o| Transform2::from_operations(o).ok()).collect(), num_rotations: flags.0, mirror_primary: flags.1, mirror_secondary: flags.2 };
    let mut sites = match rng.gen_range(0, 4) {
        0 => vec![general.clone(), one(&["x,y"])],
        1 => vec![general.clone(), one(&["x,y"]), one(&["x,y"])],
        2 => vec![general.clone(), one(&["x,y", "-x,-y"]), one(&["x,y"])],
        _ => vec![general.clone(), general.clone(), one(&["x,y"])],
    };
    // the general position anywhere in the list
    let k = rng.gen_range(0, sites.len());
    sites.swap(0, k);
    let sides = rng.gen_range(3, 9);
    let shape = match LineShape::polygon(sides) {
        Ok(s) => s,
        Err(_) => return,
    };
    let family = if libx::is_oblique(group) { CrystalFamily::Monoclinic } else { CrystalFamily::Orthorhombic };
    let state0 = PackedState::initialise(shape, Wallpaper { name: group.to_string(), family }, &sites);
    let mut v = match serde_json::to_value(&state0) {
        Ok(v) => v,
        Err(_) => return,
    };
    let n: usize = sites.iter().map(|s| s.symmetries.len()).sum();
    v["cell"]["length"] = json!(rng.gen_range(3., 7.) * (n as f64).sqrt());
    v["cell"]["ratio"] = json!(rng.gen_range(0.6, 1.));
    if libx::is_oblique(group) {
        v["cell"]["angle"] = json!(rng.gen_range(1.0, PI / 2.));
    }
    for i in 0..sites.len() {
        v["occupied_sites"][i]["x"] = json!(rng.gen_range(-0.5, 0.5));
        v["occupied_sites"][i]["y"] = json!(rng.gen_range(-0.5, 0.5));
        v["occupied_sites"][i]["angle"] = json!(rng.gen_range(0., 6.28));
    }
    let state: PackedState<LineShape> = match serde_json::from_value(v) {
        Ok(s) => s,
        Err(_) => return,
    };
    let view = hard::view(&state);
    let contact = hard::deepest_contact(&view.shape, &view.placements, &view.lattice);
    if !(contact.depth < c01::TOL) {
        st.count("multi_site_states_skipped_not_a_packing");
        return;
    }
    let score = match state.score() {
        Some(s) => s,
        None => return,
    };
    st.nontrivial(hash64(&[223, seed]));
    st.count("multi_site_states");
    let want = view.placements.len() as f64 * view.shape.area() / view.lattice.area();
    let rel = area_tolerance(&view.shape);
    if !(rel_diff(score, want) <= rel) || !(score <= 1. + rel) {
        st.violation(Violation {
            kind: "c02.multisite".into(),
            signature: if state.total_shapes() != view.placements.len() { "PackedState::total_shapes:wrong".to_string() } else { "PackedState::score:not-the-packing-fraction".to_string() },
            case: json!({ "seed": seed }),
            detail: json!({"group": group, "site_multiplicities": sites.iter().map(|x| x.symmetries.len()).collect::<Vec<_>>(), "copies_placed": view.placements.len(), "total_shapes": state.total_shapes(), "library_score": score, "true_packing_fraction": want}),
        });
    }
}

/// one hard state edited again and again (parameters several at a time, the shape replaced,
/// cloned, read back), its score compared with the oracle after every edit
pub fn check_history(h: &History, st: &mut Stats) {
    let before = st.violations.len();
    fn go<S: HardGeom>(h: &History, shapes: Vec<S>, st: &mut Stats) {
        let state = match build_packed(shapes[0].clone(), &h.group, &h.start) {
            Ok(s) => s,
            Err(e) => {
                st.inconclusive.push(e);
                return;
            }
        };
        history::drive(h, state, &shapes, st, |s, _step, six, p, st| {
            let c = StateCase { group: h.group.clone(), shape: h.shapes[six].clone(), params: *p };
            judge_score(s, &c, st);
        });
    }
    if h.shapes.iter().all(|s| s.is_line()) {
        go(h, h.shapes.iter().filter_map(|s| s.line()).collect::<Vec<_>>(), st);
    } else {
        let v: Vec<_> = h.shapes.iter().filter_map(|s| s.mol()).collect();
        if v.len() == h.shapes.len() {
            go(h, v, st);
        }
    }
    history::rewrap(st, before, "c02.history", h);
}

pub fn gen_history<R: Rng>(rng: &mut R) -> History {
    let group = groups::NAMES[rng.gen_range(0, 7)];
    let line = rng.gen_bool(0.5);
    let n = rng.gen_range(1, 4);
    let shapes: Vec<ShapeSpec> = (0..n)
        .map(|_| loop {
            let s = libx::gen::hard_shape(rng);
            if s.is_line() == line {
                break s;
            }
        })
        .collect();
    // dilute: pooled lengths 2.5..40 times the copy count
    let copies = groups::group(group).unwrap().ops.len() as f64;
    history::gen_history(rng, group, shapes, false, 2. * copies)
}

pub fn run(ctx: &Ctx) {
    ctx.set_rule("direct: Shape::area() of polygon(3..64), from_radial with random radii 0.2-2 (star shapes included), circle, trimers over radius 0.1-1.5 x angle 10-180 x distance 0.1-2.5, vs shoelace / exact union-of-discs area (Green's theorem over exposed arcs; self-tested against a 1200x1200 grid count at start-up); state level: random states of all 7 groups, as generated and shrunk to just outside first contact, restricted to oracle-valid packings: score vs copies x area / |A x B| (1e-9 relative) and score <= 1; states with several occupied sites of different multiplicity in any order (PackedState::initialise); each such state is also ranked (partial_cmp, >, ==, max) against the same crystal in a cell 1.000001 to 4 times longer; the same comparison after every edit of state objects that live through histories of 3-13 edits (several parameters at once - set, rescaled by powers of two, negated, nudged, exchanged, reset -, the shape replaced by another, the cell replaced, clone(), JSON round trip); non-trivial = polygons, trimers with at least one lens, states with oblique cells or multi-disc shapes; distinct by shape/parameter hash");
    if !selftest_union_area(ctx) {
        return;
    }
    let na = ctx.tier.pick(4_000u64, 400_000u64);
    let ns = ctx.tier.pick(1_500u64, 60_000u64);
    par_shards(ctx, 2, 64, |_, rng, st| {
        for _ in 0..na {
            check_area(&gen_area_case(rng), st);
        }
        for _ in 0..na / 10 {
            check_cell_area(rng, st);
        }
        for i in 0..ns {
            let (group, shape, mut p) = c01::rand_config(rng, i % 3 == 0);
            // a dilute start; every third case is also walked down to contact
            let copies = groups::group(&group).unwrap().ops.len() as f64;
            p.len = 6. * copies * rng.gen_range(0.6, 2.);
            let c = StateCase { group, shape, params: p };
            check_state(&c, i % 2 == 0, st);
        }
        for _ in 0..ns / 8 {
            check_history(&gen_history(rng), st);
        }
        for _ in 0..ns / 4 {
            check_multi_site(rng.gen(), st);
        }
    });
    ctx.set_min_nontrivial(5_000);
    let _ = libx::BIG_LEN;
}

pub fn replay(ctx: &Ctx, kind: &str, case: &Value) {
    let mut st = Stats::new();
    match kind {
        "c02.area" => {
            if let Ok(c) = serde_json::from_value::<AreaCase>(case.clone()) {
                check_area(&c, &mut st)
            }
        }
        "c02.cell" => {
            if let Ok(cell) = serde_json::from_value::<packing::Cell2>(case.clone()) {
                let want = case["length"].as_f64().unwrap_or(0.).powi(2) * case["ratio"].as_f64().unwrap_or(0.) * case["angle"].as_f64().unwrap_or(0.).sin();
                if !(rel_diff(cell.area(), want) <= REL) {
                    st.violation(Violation { kind: "c02.cell".into(), signature: "Cell2::area:wrong".into(), case: case.clone(), detail: json!({"library": cell.area(), "a*b*sin(angle)": want}) });
                }
            }
        }
        "c02.multisite" => {
            if let Some(seed) = case["seed"].as_u64() {
                check_multi_site(seed, &mut st)
            }
        }
        "c02.history" => {
            if let Ok(h) = serde_json::from_value::<History>(case.clone()) {
                check_history(&h, &mut st)
            }
        }
        _ => {
            if let Ok(c) = serde_json::from_value::<StateCase>(case.clone()) {
                check_state(&c, false, &mut st)
            }
        }
    }
    ctx.merge(st);
}
