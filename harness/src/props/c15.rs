//! C15 - each site yields the group's copies, once each, inside one canonical cell.
use std::f64::consts::PI;

use packing::{LineShape, PackedState};
use rand::Rng;
use serde::{Deserialize, Serialize};
use serde_json::{json, Value};

use crate::common::*;
use crate::libx::{lib_group, to_affine};
use crate::oracle::geom::Affine;
use crate::oracle::groups;

#[derive(Clone, Debug, Serialize, Deserialize)]
pub struct Case {
    pub group: String,
    pub x: f64,
    pub y: f64,
    pub phi: f64,
    /// lattice shift applied in the equivalence test
    pub dx: i32,
    pub dy: i32,
    pub dphi: i32,
}

pub fn template(group: &str) -> Result<Value, String> {
    let wg = lib_group(group)?;
    let st = PackedState::from_group(LineShape::polygon(3).map_err(|e| e.to_string())?, &wg).map_err(|e| e.to_string())?;
    serde_json::to_value(&st).map_err(|e| e.to_string())
}

/// build a state with exactly these site coordinates (serde_json::Value numbers are exact
/// doubles; no text parsing is involved)
pub fn state_with_site(tpl: &Value, x: f64, y: f64, phi: f64) -> Result<PackedState<LineShape>, String> {
    let mut v = tpl.clone();
    let s = &mut v["occupied_sites"][0];
    s["x"] = json!(x);
    s["y"] = json!(y);
    s["angle"] = json!(phi);
    serde_json::from_value(v).map_err(|e| e.to_string())
}

fn next_up(x: f64, n: i64) -> f64 {
    // step n ulps (n may be negative)
    if x == 0. {
        return n as f64 * 5e-324;
    }
    let mut b = x.to_bits() as i64;
    if x >= 0. {
        b += n;
    } else {
        b -= n;
    }
    f64::from_bits(b as u64)
}

pub fn coord<R: Rng>(rng: &mut R) -> f64 {
    match rng.gen_range(0, 12) {
        0 => [-0.5, 0.5, 0., 0.25, -0.25][rng.gen_range(0, 5)],
        1 => next_up([-0.5, 0.5][rng.gen_range(0, 2)], rng.gen_range(-4, 5)),
        2 => [-1e-17, -5e-324, -1e-300, 1e-17, -2.2e-16, -1.1e-16][rng.gen_range(0, 6)],
        3 => next_up([0.25, -0.25, 0.][rng.gen_range(0, 3)], rng.gen_range(-2, 3)),
        _ => rng.gen_range(-0.5, 0.5),
    }
}

pub fn gen_case<R: Rng>(rng: &mut R) -> Case {
    Case {
        group: groups::NAMES[rng.gen_range(0, 7)].to_string(),
        x: coord(rng),
        y: coord(rng),
        phi: match rng.gen_range(0, 6) {
            0 => [0., 2. * PI, PI, PI / 2.][rng.gen_range(0, 4)],
            _ => rng.gen_range(0., 2. * PI),
        },
        dx: rng.gen_range(-2, 3),
        dy: rng.gen_range(-2, 3),
        dphi: rng.gen_range(-1, 2),
    }
}

fn circ(a: f64, b: f64) -> f64 {
    let d = (a - b).rem_euclid(1.);
    d.min(1. - d)
}

fn lin_diff(a: &Affine, b: &Affine) -> f64 {
    let mut d: f64 = 0.;
    for i in 0..2 {
        for j in 0..2 {
            d = d.max((a.m[i][j] - b.m[i][j]).abs());
        }
    }
    d
}

fn viol(what: &str, case: &Case, detail: Value) -> Violation {
    Violation {
        kind: "c15.site".into(),
        signature: format!("OccupiedSite::positions:{}", what),
        case: serde_json::to_value(case).unwrap(),
        detail,
    }
}

/// placements matched to the ITA operations (index k -> placement for op k)
fn matched(case: &Case, tpl: &Value, x: f64, y: f64, phi: f64, st: &mut Stats, strict: bool) -> Option<Vec<Affine>> {
    let g = groups::group(&case.group)?;
    let state = match state_with_site(tpl, x, y, phi) {
        Ok(s) => s,
        Err(e) => {
            st.violation(viol("cannot-build", case, json!({ "error": e })));
            return None;
        }
    };
    let pl: Vec<Affine> = state.relative_positions().map(|t| to_affine(&t)).collect();
    match_placements(case, &g, &pl, x, y, phi, st, strict)
}

/// match a list of placements one-to-one to the ITA operations applied to (x, y, phi)
fn match_placements(case: &Case, g: &groups::Group, pl: &[Affine], x: f64, y: f64, phi: f64, st: &mut Stats, strict: bool) -> Option<Vec<Affine>> {
    if pl.len() != g.ops.len() {
        st.violation(viol("count", case, json!({"placements": pl.len(), "order": g.ops.len()})));
        return None;
    }
    let rot = Affine::rot(phi, [0., 0.]);
    let mut used = vec![false; pl.len()];
    let mut out = vec![];
    for op in g.ops.iter() {
        let w = Affine { m: [[op.w[0][0] as f64, op.w[0][1] as f64], [op.w[1][0] as f64, op.w[1][1] as f64]], t: [0., 0.] };
        let want_lin = w.mul(&rot);
        let (tx, ty) = op.apply(x, y);
        let found = pl.iter().enumerate().find(|(i, p)| !used[*i] && lin_diff(p, &want_lin) <= 1e-15);
        match found {
            None => {
                st.violation(viol("linear-part", case, json!({"op": format!("{:?}", op), "want": want_lin.m, "placements": pl.iter().map(|p| p.m).collect::<Vec<_>>() })));
                return None;
            }
            Some((i, p)) => {
                used[i] = true;
                if strict {
                    let tol = 1e-12 * (1. + x.abs() + y.abs());
                    if !(circ(p.t[0], tx) <= tol && circ(p.t[1], ty) <= tol) {
                        st.violation(viol("translation-not-congruent", case, json!({"op": format!("{:?}", op), "got": p.t, "want_mod_1": [tx, ty]})));
                        return None;
                    }
                    for k in 0..2 {
                        if !(p.t[k] >= -0.5 && p.t[k] < 0.5) {
                            st.violation(viol("outside-canonical-cell", case, json!({"op": format!("{:?}", op), "got": p.t})));
                            return None;
                        }
                    }
                }
                out.push(*p);
            }
        }
    }
    Some(out)
}

pub fn check(case: &Case, tpl: &Value, st: &mut Stats) {
    st.eval();
    let order = groups::group(&case.group).map(|g| g.ops.len()).unwrap_or(0);
    let boundary = case.x.abs() >= 0.4999999 || case.y.abs() >= 0.4999999 || case.x.abs() < 1e-9 || case.y.abs() < 1e-9;
    if order >= 2 || boundary {
        st.nontrivial(hash64(&[hash_str(&case.group), case.x.to_bits(), case.y.to_bits(), q(case.phi, 1e-6)]));
    }
    if boundary {
        st.count("cases_on_or_next_to_a_cell_face_or_special_position");
    }
    let base = match matched(case, tpl, case.x, case.y, case.phi, st, true) {
        Some(b) => b,
        None => return,
    };
    st.sample(|| json!({"case": case, "placements": base.iter().map(|p| json!({"m": p.m, "t": p.t})).collect::<Vec<_>>() }));
    if case.dx != 0 || case.dy != 0 || case.dphi != 0 {
        st.count("equivalence_pairs");
        let (x2, y2, p2) = (case.x + case.dx as f64, case.y + case.dy as f64, case.phi + case.dphi as f64 * 2. * PI);
        if let Some(var) = matched(case, tpl, x2, y2, p2, st, false) {
            for (k, (a, b)) in base.iter().zip(var.iter()).enumerate() {
                if circ(a.t[0], b.t[0]) > 1e-9 || circ(a.t[1], b.t[1]) > 1e-9 || lin_diff(a, b) > 1e-9 {
                    st.violation(viol("shifted-site-differs", case, json!({"op_index": k, "base": {"m": a.m, "t": a.t}, "shifted": {"m": b.m, "t": b.t}})));
                    break;
                }
            }
        }
    }
}

/// Sites whose operations were never strings: built through the public API
/// (`Transform2::identity()`, `Transform2::new`, `From<Matrix3>`) into a hand-made `WyckoffSite`.
/// The same group, the same placements.
pub fn check_constructed(case: &Case, how: u64, st: &mut Stats) {
    use packing::traits::Basis;
    use packing::wallpaper::WyckoffSite;
    use packing::{OccupiedSite, Transform2};
    st.eval();
    let g = match groups::group(&case.group) {
        Some(g) => g,
        None => return,
    };
    let ops: Vec<Transform2> = g
        .ops
        .iter()
        .map(|o| {
            let ident = o.w == [[1, 0], [0, 1]] && o.t2 == [0, 0];
            // (an operation is the same operation with any whole lattice vector added to its
            // translation: other settings and unreduced tables write -3/2 for 1/2)
            let (sx, sy) = if how >= 6 { ((((how / 6) % 7) as f64) - 3., (((how / 42) % 7) as f64) - 3.) } else { (0., 0.) };
            let a = Affine { m: [[o.w[0][0] as f64, o.w[0][1] as f64], [o.w[1][0] as f64, o.w[1][1] as f64]], t: [o.t2[0] as f64 / 2. + sx, o.t2[1] as f64 / 2. + sy] };
            let ident = ident && sx == 0. && sy == 0.;
            match (ident, how % 3) {
                (true, 0) => Transform2::identity(),
                (true, 1) => Transform2::new(0., (0., 0.)),
                _ => crate::libx::from_affine(&a),
            }
        })
        .collect();
    // (the descriptive fields of a Wyckoff site take any value: placements are the operations times the site)
    let site = OccupiedSite::from_wyckoff(&WyckoffSite { letter: ['a', 'b', 'z'][(how % 3) as usize], symmetries: ops, num_rotations: [1u64, 2, 4, 0, 3, 6][((how / 7) % 6) as usize], mirror_primary: (how / 11) % 2 == 1, mirror_secondary: (how / 13) % 3 == 1 });
    let inside = case.x.abs() <= 0.5 && case.y.abs() <= 0.5 && case.phi >= 0. && case.phi <= 2. * PI;
    let site = if inside && how % 2 == 0 {
        {
            let mut b = site.get_basis(1);
            if b.len() != 3 {
                return;
            }
            b[0].set_value(case.x);
            b[1].set_value(case.y);
            b[2].set_value(case.phi);
        }
        site
    } else {
        // any coordinates: through the site's own JSON form
        let mut v = match serde_json::to_value(&site) {
            Ok(v) => v,
            Err(_) => return,
        };
        v["x"] = json!(case.x);
        v["y"] = json!(case.y);
        v["angle"] = json!(case.phi);
        match serde_json::from_value::<OccupiedSite>(v) {
            Ok(s) => s,
            Err(_) => return,
        }
    };
    let pl: Vec<Affine> = site.positions().map(|t| to_affine(&t)).collect();
    st.count("sites_with_constructed_operations");
    let before = st.violations.len();
    let _ = match_placements(case, &g, &pl, case.x, case.y, case.phi, st, true);
    for v in st.violations.iter_mut().skip(before) {
        v.kind = "c15.constructed".into();
        v.case = json!({"group": case.group, "x": case.x, "y": case.y, "phi": case.phi, "dx": 0, "dy": 0, "dphi": 0, "constructed": how});
    }
}

/// the placements are handed out as iterators: every way of consuming one must walk the same
/// sequence (see iterproto)
pub fn check_protocol(case: &Case, tpl: &Value, proto_seed: u64, st: &mut Stats) {
    use packing::traits::Basis;
    st.eval();
    let mut rng = crate::common::rng_for(proto_seed, 1516);
    let state = match state_with_site(tpl, case.x, case.y, case.phi) {
        Ok(s) => s,
        Err(_) => return,
    };
    let site = lib_group(&case.group).ok().and_then(|g| packing::wallpaper::WyckoffSite::new(&g).ok()).map(|w| packing::OccupiedSite::from_wyckoff(&w));
    if let Some(site) = &site {
        let mut b = site.get_basis(1);
        if b.len() == 3 {
            b[0].set_value(case.x);
            b[1].set_value(case.y);
            b[2].set_value(case.phi.max(0.).min(2. * PI));
        }
    }
    let mut calls = 0u64;
    let mut found: Option<(&str, String)> = None;
    for _ in 0..4 {
        if let Some(site) = &site {
            if let Some(e) = super::iterproto::check(|| site.positions(), &mut rng, &mut calls) {
                found = Some(("OccupiedSite::positions", e));
                break;
            }
        }
        if let Some(e) = super::iterproto::check(|| state.relative_positions(), &mut rng, &mut calls) {
            found = Some(("PackedState::relative_positions", e));
            break;
        }
        if let Some(e) = super::iterproto::check(|| state.cartesian_positions(), &mut rng, &mut calls) {
            found = Some(("PackedState::cartesian_positions", e));
            break;
        }
    }
    st.add("iterator_calls_checked_against_the_collected_sequence", calls);
    if let Some((site, e)) = found {
        st.violation(Violation {
            kind: "c15.protocol".into(),
            signature: format!("{}:placements-depend-on-how-the-iterator-is-consumed", site),
            case: json!({"group": case.group, "x": case.x, "y": case.y, "phi": case.phi, "dx": 0, "dy": 0, "dphi": 0, "proto_seed": proto_seed}),
            detail: json!({ "disagreement": e }),
        });
    }
}

/// One state object reused over a history of writes and undos through its own basis handles
/// (what the optimiser does): after every operation the placements must be those of the
/// coordinates the site holds *now*.
pub fn check_history(group: &str, tpl: &Value, hist_seed: u64, ops: usize, st: &mut Stats) {
    use packing::traits::{Basis, State};
    let mut own = crate::common::rng_for(hist_seed, 1515);
    let rng = &mut own;
    st.eval();
    let g = match groups::group(group) {
        Some(g) => g,
        None => return,
    };
    let layout = match crate::libx::basis_layout(group) {
        Ok(l) => l,
        Err(e) => {
            st.inconclusive.push(e);
            return;
        }
    };
    let state = match state_with_site(tpl, coord(rng), coord(rng), rng.gen_range(0., 2. * PI)) {
        Ok(s) => s,
        Err(_) => return,
    };
    let n = layout.len();
    let (ix, iy, iphi) = (layout[n - 3], layout[n - 2], layout[n - 1]);
    let mut basis = state.generate_basis();
    let mut script: Vec<String> = vec![];
    st.nontrivial(hash64(&[hash_str(group), rng.gen::<u64>()]));
    for step in 0..ops {
        let h = [ix, iy, iphi][rng.gen_range(0, 3)];
        match rng.gen_range(0, 5) {
            0 => {
                basis[h].reset_value();
                script.push(format!("reset({})", h));
            }
            1 | 2 => {
                let v = if h == iphi { rng.gen_range(0., 2. * PI) } else { coord(rng) };
                basis[h].set_value(v);
                script.push(format!("set({},{})", h, v));
            }
            _ => {
                let stepsize = [0.01, 0.3, 1.][rng.gen_range(0, 3)];
                basis[h].set_sampled(rng, stepsize);
                script.push(format!("sample({})", h));
            }
        }
        if rng.gen_bool(0.6) {
            let (x, y, phi) = (basis[ix].get_value(), basis[iy].get_value(), basis[iphi].get_value());
            let pl: Vec<Affine> = state.relative_positions().map(|t| to_affine(&t)).collect();
            st.count("history_placement_checks");
            let case = Case { group: group.to_string(), x, y, phi, dx: 0, dy: 0, dphi: 0 };
            let before = st.violations.len();
            if match_placements(&case, &g, &pl, x, y, phi, st, true).is_none() {
                // re-label: the same coordinates on a fresh state are fine (checked elsewhere);
                // what failed here is the reused object
                if let Some(v) = st.violations.get_mut(before) {
                    v.signature = format!("{}:after-a-history-of-writes-and-undos", v.signature);
                    v.kind = "c15.history".into();
                    v.case = json!({"group": group, "hist_seed": hist_seed, "ops": ops, "last_operations": script.iter().rev().take(12).rev().collect::<Vec<_>>(), "step": step, "site_now": [x, y, phi]});
                }
                return;
            }
        }
    }
}

pub fn run(ctx: &Ctx) {
    ctx.set_rule("states built from a JSON template with exact site coordinates: x,y uniform in [-1/2,1/2), exactly +-1/2, 0, +-1/4, 1..4 ulps either side of +-1/2, tiny/denormal negatives; orientation incl. 0, pi, 2pi; relative_positions() matched one-to-one to the ITA operations (linear part W.Rot(phi) to 1e-15, translation congruent mod 1 to W(x,y)+w to 1e-12, inside [-1/2,1/2)); plus equivalence of (x+-k, y+-k, phi+-2pi) to 1e-9 on the torus; plus histories on ONE reused state: 60 random set / reset / sampled-set operations through its own basis handles, placements checked against the coordinates the site holds after each; plus sites whose operations were built through the API (Transform2::identity(), ::new, From<Matrix3>) into hand-made Wyckoff sites, coordinates set through the handles or through JSON (also outside the cell), operation translations also unreduced (whole lattice vectors -3..3 added); plus the iterator protocol: positions() / relative_positions() / cartesian_positions() driven by random scripts of next, nth, take, size_hint and then count / last / step_by / skip / fold / collect, compared element for element with the collected sequence; non-trivial = group order >= 2 or a coordinate on/next to a face or special position; distinct by exact coordinate bits");
    let n = ctx.tier.pick(25_000u64, 3_000_000u64);
    let tpls: Vec<(String, Value)> = match groups::NAMES.iter().map(|g| template(g).map(|t| (g.to_string(), t))).collect::<Result<Vec<_>, _>>() {
        Ok(t) => t,
        Err(e) => {
            ctx.inconclusive(&format!("cannot build template states: {}", e));
            return;
        }
    };
    par_shards(ctx, 15, 64, |_, rng, st| {
        for _ in 0..n {
            let c = gen_case(rng);
            let tpl = &tpls.iter().find(|(g, _)| *g == c.group).unwrap().1;
            check(&c, tpl, st);
            if rng.gen_range(0, 8) == 0 {
                check_protocol(&c, tpl, rng.gen(), st);
            }
            if rng.gen_range(0, 4) == 0 {
                // also with the site whole lattice vectors outside the cell
                let mut c2 = c.clone();
                if rng.gen_bool(0.3) {
                    c2.x += c.dx as f64;
                    c2.y += c.dy as f64;
                }
                check_constructed(&c2, if rng.gen_bool(0.5) { rng.gen_range(0, 6) } else { rng.gen_range(6, 6 * 49 * 6) }, st);
            }
        }
        for _ in 0..(n / 200).max(20) {
            let (g, tpl) = &tpls[rng.gen_range(0, tpls.len())];
            check_history(g, tpl, rng.gen(), 60, st);
        }
    });
    ctx.set_min_nontrivial(1000);
}

pub fn replay(ctx: &Ctx, case: &Value) {
    let mut st = Stats::new();
    if let (Some(g), Some(hs)) = (case["group"].as_str(), case["hist_seed"].as_u64()) {
        if let Ok(tpl) = template(g) {
            check_history(g, &tpl, hs, case["ops"].as_u64().unwrap_or(60) as usize, &mut st);
        }
    } else if let Ok(c) = serde_json::from_value::<Case>(case.clone()) {
        if let Ok(tpl) = template(&c.group) {
            match (case["proto_seed"].as_u64(), case["constructed"].as_u64()) {
                (Some(ps), _) => check_protocol(&c, &tpl, ps, &mut st),
                (_, Some(how)) => check_constructed(&c, how, &mut st),
                _ => check(&c, &tpl, &mut st),
            }
        }
    }
    ctx.merge(st);
}
