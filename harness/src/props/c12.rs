//! C12 - the pairwise overlap test agrees with exact geometry.
use std::f64::consts::PI;

use packing::traits::{Intersect, Shape};
use rand::Rng;
use serde::{Deserialize, Serialize};
use serde_json::{json, Value};

use crate::common::*;
use crate::libx::{from_affine, HardGeom, ShapeSpec};
use crate::oracle::geom::{self, Affine, OShape};

pub const TOL: f64 = 1e-9;

#[derive(Clone, Debug, Serialize, Deserialize)]
pub struct Case {
    pub shape: ShapeSpec,
    pub t1: ([[f64; 2]; 2], [f64; 2]),
    pub t2: ([[f64; 2]; 2], [f64; 2]),
    pub tag: String,
    /// place each copy in two steps (transform of an already placed copy) - the composition is
    /// the same placement
    #[serde(default)]
    pub two_step: Option<([[f64; 2]; 2], [f64; 2])>,
    /// pass the placed shapes through JSON before testing them
    #[serde(default)]
    pub via_json: bool,
}

fn aff(t: &([[f64; 2]; 2], [f64; 2])) -> Affine {
    Affine { m: t.0, t: t.1 }
}

fn viol(what: &str, c: &Case, detail: Value) -> Violation {
    let site = if c.shape.is_line() { "LineShape::intersects" } else { "MolecularShape2::intersects" };
    Violation { kind: "c12.pair".into(), signature: format!("{}:{}", site, what), case: serde_json::to_value(c).unwrap(), detail }
}

fn check_generic<S: HardGeom>(base: S, c: &Case, st: &mut Stats) {
    st.eval();
    let ob = base.oshape();
    if !ob.is_convex() {
        st.count("skipped_nonconvex");
        return;
    }
    let (t1, t2) = (aff(&c.t1), aff(&c.t2));
    // T = (T o S^-1) o S for a rigid S: the same placement reached in two steps
    let place = |t: &Affine| -> S {
        match c.two_step {
            Some((m, tr)) => {
                let s = Affine { m, t: tr };
                // inverse of a rigid motion / reflection: transpose of the linear part
                let mi = [[m[0][0], m[1][0]], [m[0][1], m[1][1]]];
                let ti = [-(mi[0][0] * tr[0] + mi[0][1] * tr[1]), -(mi[1][0] * tr[0] + mi[1][1] * tr[1])];
                let sinv = Affine { m: mi, t: ti };
                let second = t.mul(&sinv);
                base.transform(&from_affine(&s)).transform(&from_affine(&second))
            }
            None => base.transform(&from_affine(t)),
        }
    };
    let (mut a, mut b) = (place(&t1), place(&t2));
    if c.via_json {
        match (serde_json::to_value(&a).and_then(serde_json::from_value::<S>), serde_json::to_value(&b).and_then(serde_json::from_value::<S>)) {
            (Ok(x), Ok(y)) => {
                a = x;
                b = y;
            }
            _ => {
                st.violation(Violation { kind: "c12.pair".into(), signature: "Shape:json-round-trip-fails".into(), case: serde_json::to_value(c).unwrap(), detail: json!({}) });
                return;
            }
        }
    }
    let (oa, obb) = (a.oshape(), b.oshape());
    // the library's placed geometry must be the base geometry under the transform
    let (wa, wb) = (ob.placed(&t1), ob.placed(&t2));
    let mag = 1. + t1.t[0].abs() + t1.t[1].abs() + t2.t[0].abs() + t2.t[1].abs();
    let same = |x: &OShape, y: &OShape| -> bool {
        let (px, py) = (x.points(), y.points());
        px.len() == py.len()
            && px.iter().zip(py.iter()).all(|(p, q)| (p.0[0] - q.0[0]).abs() <= 1e-11 * mag && (p.0[1] - q.0[1]).abs() <= 1e-11 * mag && p.1 == q.1)
    };
    if !same(&oa, &wa) || !same(&obb, &wb) {
        st.violation(Violation {
            kind: "c12.pair".into(),
            signature: "Shape::transform:placed-geometry".into(),
            case: serde_json::to_value(c).unwrap(),
            detail: json!({"library": format!("{:?}", oa), "expected": format!("{:?}", wa)}),
        });
        return;
    }
    let d = geom::depth(&oa, &obb);
    let lib = a.intersects(&b);
    let lib_sw = b.intersects(&a);
    let bucket = if d > 0.1 {
        "depth>0.1"
    } else if d > 1e-6 {
        "depth 1e-6..0.1"
    } else if d > TOL {
        "depth 1e-9..1e-6"
    } else if d >= -TOL {
        "touching |depth|<=1e-9 (no requirement)"
    } else if d >= -1e-6 {
        "gap 1e-9..1e-6"
    } else if d >= -0.1 {
        "gap 1e-6..0.1"
    } else {
        "gap>0.1"
    };
    st.count(&format!("depth[{}]", bucket));
    st.count(&format!("construction[{}]", c.tag));
    if d.abs() < 0.1 || c.tag != "random" {
        st.nontrivial(hash64(&[hash_str(&c.shape.label()), hash_str(&c.tag), q(d, 1e-12), q(c.t2.1[0], 1e-9), q(c.t2.1[1], 1e-9)]));
    }
    let detail = |extra: &str| json!({"oracle_depth": d, "library": lib, "library_swapped": lib_sw, "note": extra, "a": format!("{:?}", oa), "b": format!("{:?}", obb)});
    if d > TOL && (!lib || !lib_sw) {
        // second opinion before raising: a point strictly inside both
        if geom::common_interior_point(&oa, &obb, d.min(0.5) * 1e-3).is_none() && d < 1e-3 {
            // cannot re-confirm a very shallow overlap by sampling: still decided by SAT, keep
        }
        st.violation(viol("misses-overlap", c, detail("interiors overlap by more than 1e-9 but the test says no")));
        return;
    }
    if d < -TOL && (lib || lib_sw) {
        st.violation(viol("reports-separated-as-overlapping", c, detail("separated by more than 1e-9 but the test says yes")));
        return;
    }
    if d.abs() > TOL && lib != lib_sw {
        st.violation(viol("asymmetric", c, detail("a.intersects(b) != b.intersects(a)")));
        return;
    }
    st.sample(|| json!({"case": c, "oracle_depth": d, "library": lib}));
}

pub fn check(c: &Case, st: &mut Stats) {
    if let Some(s) = c.shape.line() {
        check_generic(s, c, st)
    } else if let Some(s) = c.shape.mol() {
        check_generic(s, c, st)
    }
}

fn rot(phi: f64) -> [[f64; 2]; 2] {
    let (s, c) = phi.sin_cos();
    [[c, -s], [s, c]]
}

fn base_frame<R: Rng>(rng: &mut R) -> Affine {
    let phi = match rng.gen_range(0, 4) {
        0 => 0.,
        1 => rng.gen_range(0, 8) as f64 * PI / 4.,
        _ => rng.gen_range(0., 2. * PI),
    };
    let t = match rng.gen_range(0, 4) {
        0 => [0., 0.],
        1 => [rng.gen_range(100., 1000.) * if rng.gen_bool(0.5) { 1. } else { -1. }, rng.gen_range(-1000., 1000.)],
        _ => [rng.gen_range(-5., 5.), rng.gen_range(-5., 5.)],
    };
    let mut m = rot(phi);
    if rng.gen_bool(0.25) {
        // reflection x -> -x, then rotate
        m = [[-m[0][0], m[0][1]], [-m[1][0], m[1][1]]];
    }
    Affine { m, t }
}

fn convex_radii<R: Rng>(rng: &mut R, n: usize) -> Vec<f64> {
    // irregular but convex: perturb some radii, keep if the oracle says convex
    let patterned = rng.gen_bool(0.35);
    for _ in 0..40 {
        let scale = rng.gen_range(0.5, 1.6);
        let radii: Vec<f64> = if patterned && rng.gen_bool(0.3) {
            // redundant points: a vertex exactly on the chord between its neighbours (weakly
            // convex; what drawing a side through an extra point gives) - every second vertex,
            // or a single one, at any position in the list
            let c = scale * (2. * PI / n as f64).cos();
            if n >= 5 && rng.gen_bool(0.5) {
                let first = rng.gen_range(0, 2);
                (0..n).map(|i| if n % 2 == 0 && i % 2 == first { c } else if n % 2 == 1 && i == first { c } else { scale }).collect()
            } else if n >= 5 {
                let at = rng.gen_range(0, n);
                (0..n).map(|i| if i == at { c } else { scale }).collect()
            } else {
                vec![scale; n]
            }
        } else if patterned {
            // polygons with symmetry short of regular: radii repeating with period 2, 3 or n/2
            // (rhombi, alternating hexagons - equal sides, unequal radii), or two values only
            let period = [2usize, 2, 3, (n / 2).max(2)][rng.gen_range(0, 4)];
            let vals: Vec<f64> = (0..period).map(|_| scale * [1., 1., 0.6, 0.8, 0.9, 0.95, 1.1][rng.gen_range(0, 7)]).collect();
            (0..n).map(|i| vals[i % period]).collect()
        } else {
            (0..n).map(|_| if rng.gen_bool(0.5) { scale } else { scale * rng.gen_range(0.75, 1.2) }).collect()
        };
        if let Some(s) = (ShapeSpec::Radial { radii: radii.clone() }).line() {
            if s.oshape().is_convex() && radii.iter().any(|r| (*r - radii[0]).abs() > 1e-3) {
                return radii;
            }
        }
    }
    vec![rng.gen_range(0.3, 2.); n]
}

fn centroid(v: &[[f64; 2]]) -> [f64; 2] {
    let n = v.len() as f64;
    let c = v.iter().fold([0., 0.], |a, p| [a[0] + p[0], a[1] + p[1]]);
    [c[0] / n, c[1] / n]
}

/// edge j of polygon v: (midpoint, unit direction, unit outward normal, length)
fn edge(v: &[[f64; 2]], j: usize) -> ([f64; 2], [f64; 2], [f64; 2], f64) {
    let (p, q) = (v[j], v[(j + 1) % v.len()]);
    let d = [q[0] - p[0], q[1] - p[1]];
    let len = (d[0] * d[0] + d[1] * d[1]).sqrt();
    let e = [d[0] / len, d[1] / len];
    let mut n = [e[1], -e[0]];
    let c = centroid(v);
    let mid = [(p[0] + q[0]) / 2., (p[1] + q[1]) / 2.];
    if n[0] * (mid[0] - c[0]) + n[1] * (mid[1] - c[1]) < 0. {
        n = [-n[0], -n[1]];
    }
    (mid, e, n, len)
}

fn apply(m: &[[f64; 2]; 2], p: [f64; 2]) -> [f64; 2] {
    [m[0][0] * p[0] + m[0][1] * p[1], m[1][0] * p[0] + m[1][1] * p[1]]
}

pub fn gen_polygon_case<R: Rng>(rng: &mut R) -> Case {
    // (occasionally very many sides: the CLI accepts any --sides n)
    let n: usize = if rng.gen_range(0, 400) == 0 { [64, 257, 300, 360, 512][rng.gen_range(0, 5)] } else { rng.gen_range(3, 13) };
    let shape = match if n > 12 { 9 } else { rng.gen_range(0, 10) } {
        0 => ShapeSpec::Radial { radii: vec![rng.gen_range(0.3, 2.); n] },
        1 | 2 | 3 => ShapeSpec::Radial { radii: convex_radii(rng, n) },
        _ => ShapeSpec::Polygon { sides: n },
    };
    let verts: Vec<[f64; 2]> = match shape.line().map(|l| l.oshape()) {
        Some(OShape::Poly(v)) => v,
        _ => vec![[0., 1.], [1., 0.], [0., -1.], [-1., 0.]],
    };
    let size = verts.iter().map(|p| (p[0] * p[0] + p[1] * p[1]).sqrt()).fold(0., f64::max);
    let regular = matches!(shape, ShapeSpec::Polygon { .. });
    let f = base_frame(rng);
    let deltas = [0., 1e-12, -1e-12, 1e-7, -1e-7, 1e-3, -1e-3, 0.05, -0.05];
    let j = rng.gen_range(0, n);
    let i = rng.gen_range(0, n);
    let (mid_a, e_a, n_a, len_a) = edge(&verts, j);
    let (rel, tag): (Affine, &str) = match rng.gen_range(0, 8) {
        0 => {
            let k = if regular { rng.gen_range(0, n) } else { 0 };
            (Affine { m: rot(k as f64 * 2. * PI / n as f64), t: [0., 0.] }, "coincident")
        }
        1 | 2 => {
            // edge i of B face to face with edge j of A: rotate B so that its outward normal
            // on edge i is -n_a, then place the edge midpoints at offset (s along, p across)
            let (_, _, n_b, len_b) = edge(&verts, i);
            let phi = (-n_a[1]).atan2(-n_a[0]) - n_b[1].atan2(n_b[0]);
            let m = rot(phi);
            let rv: Vec<[f64; 2]> = verts.iter().map(|p| apply(&m, *p)).collect();
            let (mid_b, _, _, _) = edge(&rv, i);
            let p = match rng.gen_range(0, 3) {
                0 => deltas[rng.gen_range(0, deltas.len())],
                1 => rng.gen_range(-0.5 * size, 0.2 * size),
                _ => 0.,
            };
            let lmax = 0.5 * (len_a + len_b);
            let s = match rng.gen_range(0, 5) {
                0 => 0.,
                1 => lmax * if rng.gen_bool(0.5) { 1. } else { -1. },
                2 => 0.5 * (len_a - len_b),
                _ => rng.gen_range(-1.2 * lmax, 1.2 * lmax),
            };
            let target = [mid_a[0] + s * e_a[0] + p * n_a[0], mid_a[1] + s * e_a[1] + p * n_a[1]];
            (Affine { m, t: [target[0] - mid_b[0], target[1] - mid_b[1]] }, "parallel-edges-slide")
        }
        3 => {
            // shared vertex: vertex i of B on vertex j of A
            let phi = if rng.gen_bool(0.5) && regular { rng.gen_range(0, n) as f64 * 2. * PI / n as f64 } else { rng.gen_range(0., 2. * PI) };
            let m = rot(phi);
            let rv = apply(&m, verts[i]);
            (Affine { m, t: [verts[j][0] - rv[0], verts[j][1] - rv[1]] }, "shared-vertex")
        }
        4 => {
            let phi: f64 = rng.gen_range(0., 2. * PI);
            let (s, c) = phi.sin_cos();
            let d = rng.gen_range(0., 2.4 * size);
            let dir: f64 = rng.gen_range(0., 2. * PI);
            (Affine { m: [[-c, -s], [-s, c]], t: [d * dir.cos(), d * dir.sin()] }, "mirror-image")
        }
        5 => {
            // lowest vertex of B (along -n_a) put on edge j of A, then pushed in/out
            let phi: f64 = rng.gen_range(0., 2. * PI);
            let m = rot(phi);
            let mut best = (f64::INFINITY, [0., 0.]);
            for v in verts.iter() {
                let rv = apply(&m, *v);
                let h = rv[0] * n_a[0] + rv[1] * n_a[1];
                if h < best.0 {
                    best = (h, rv);
                }
            }
            let along = rng.gen_range(-0.45 * len_a, 0.45 * len_a);
            let push = deltas[rng.gen_range(0, deltas.len())];
            let target = [mid_a[0] + along * e_a[0] + push * n_a[0], mid_a[1] + along * e_a[1] + push * n_a[1]];
            (Affine { m, t: [target[0] - best.1[0], target[1] - best.1[1]] }, "vertex-on-edge")
        }
        _ => {
            let d = rng.gen_range(0., 2.5 * size);
            let dir: f64 = rng.gen_range(0., 2. * PI);
            (Affine { m: rot(rng.gen_range(0., 2. * PI)), t: [d * dir.cos(), d * dir.sin()] }, "random")
        }
    };
    let t2 = f.mul(&rel);
    Case { shape, t1: (f.m, f.t), t2: (t2.m, t2.t), tag: tag.to_string(), two_step: None, via_json: false }
}

pub fn gen_disc_case<R: Rng>(rng: &mut R) -> Case {
    let shape = if rng.gen_bool(0.3) { ShapeSpec::Circle } else { crate::libx::gen::trimer(rng) };
    let discs = match shape.mol().map(|m| m.oshape()) {
        Some(OShape::Discs(d)) => d,
        _ => vec![],
    };
    let f = base_frame(rng);
    let (rel, tag) = if rng.gen_bool(0.5) && !discs.is_empty() {
        // bring disc i of A and disc j of B to distance (r_i + r_j)(1 + delta)
        let deltas = [0., 1e-12, -1e-12, 1e-10, -1e-10, 1e-7, -1e-7, 1e-3, -1e-3];
        let i = rng.gen_range(0, discs.len());
        let j = rng.gen_range(0, discs.len());
        let phi: f64 = rng.gen_range(0., 2. * PI);
        let (s, c) = phi.sin_cos();
        let m = if rng.gen_bool(0.7) { [[c, -s], [s, c]] } else { [[-c, -s], [-s, c]] };
        let cj = discs[j].0;
        let rcj = [m[0][0] * cj[0] + m[0][1] * cj[1], m[1][0] * cj[0] + m[1][1] * cj[1]];
        let dir: f64 = rng.gen_range(0., 2. * PI);
        let dist = (discs[i].1 + discs[j].1) * (1. + deltas[rng.gen_range(0, deltas.len())]);
        let target = [discs[i].0[0] + dist * dir.cos(), discs[i].0[1] + dist * dir.sin()];
        (Affine { m, t: [target[0] - rcj[0], target[1] - rcj[1]] }, "disc-contact")
    } else {
        let d = rng.gen_range(0., 5.);
        let dir: f64 = rng.gen_range(0., 2. * PI);
        (Affine { m: rot(rng.gen_range(0., 2. * PI)), t: [d * dir.cos(), d * dir.sin()] }, "random")
    };
    let t2 = f.mul(&rel);
    Case { shape, t1: (f.m, f.t), t2: (t2.m, t2.t), tag: tag.to_string(), two_step: None, via_json: false }
}

/// Crystal-like configurations: both copies of a regular polygon turned so that edges are exactly
/// horizontal or vertical, the second copy turned by a half turn (plus a multiple of the
/// polygon's own angle) against the first and shifted so that a corner of one lies on a corner,
/// or on an edge, of the other - what special positions of p2, p2mg, p2gg produce, and where
/// every contact of an overlapping pair can be of the degenerate kind.
pub fn gen_axis_aligned_case<R: Rng>(rng: &mut R) -> Option<Case> {
    let n = [3usize, 4, 5, 6, 6, 8, 10, 12][rng.gen_range(0, 8)];
    let shape = ShapeSpec::Polygon { sides: n };
    let v: Vec<[f64; 2]> = match shape.line().map(|l| l.oshape()) {
        Some(crate::oracle::geom::OShape::Poly(v)) => v,
        _ => return None,
    };
    let e0 = [v[1][0] - v[0][0], v[1][1] - v[0][1]];
    let alpha = e0[1].atan2(e0[0]);
    let phi1 = -alpha + rng.gen_range(0, 4) as f64 * PI / 2. + rng.gen_range(0, n) as f64 * 2. * PI / n as f64;
    let phi2 = phi1 + PI + rng.gen_range(0, n) as f64 * 2. * PI / n as f64;
    let (m1, m2) = (rot(phi1), rot(phi2));
    let t1 = match rng.gen_range(0, 3) {
        0 => [0., 0.],
        1 => [rng.gen_range(-5., 5.), rng.gen_range(-5., 5.)],
        _ => [rng.gen_range(0, 9) as f64 * 0.125, rng.gen_range(0, 9) as f64 * 0.25],
    };
    let (a, b) = (rng.gen_range(0, n), rng.gen_range(0, n));
    // a point of copy 1: corner a, or a point on the edge from corner a
    let s = [0., 0., 0., 0.5, 0.25, 0.3][rng.gen_range(0, 6)];
    let pa = [v[a][0] + s * (v[(a + 1) % n][0] - v[a][0]), v[a][1] + s * (v[(a + 1) % n][1] - v[a][1])];
    let p1 = apply(&m1, pa);
    let p2 = apply(&m2, v[b]);
    let t2 = [t1[0] + p1[0] - p2[0], t1[1] + p1[1] - p2[1]];
    Some(Case { shape, t1: (m1, t1), t2: (m2, t2), tag: "axis-aligned-twin".into(), two_step: None, via_json: false })
}

pub fn run(ctx: &Ctx) {
    ctx.set_rule("two placed copies of one shape (regular 3..12-gons and occasionally 64..512-gons, convex radial polygons, circle, trimers): random relative placements and constructed alignments (coincident, parallel edges slid along an edge with face contact at 2 r_in (1 +- {0,1e-12,1e-7,1e-3}), shared vertex, vertex on edge, mirror images, axis-aligned twins (edges exactly horizontal/vertical, second copy a half turn on, corner on corner or on an edge), disc contact at (r1+r2)(1 +- ...)), each under base frames {identity, k pi/4, random, 100-1000 from the origin, reflected}; 15% of the copies are placed in two steps (a placed copy transformed again), 5% are passed through JSON first; library answer (both argument orders) vs separating-axis depth / centre distance computed from the library-placed coordinates; required only when |depth| > 1e-9; non-trivial = |depth| < 0.1 or any constructed alignment; distinct by quantised (shape, construction, depth, offset)");
    ctx.assume("convex polygons only (separating-axis theorem); non-convex radial shapes are skipped");
    let n = ctx.tier.pick(40_000u64, 4_000_000u64);
    par_shards(ctx, 12, 64, |_, rng, st| {
        for _ in 0..n {
            let mut c = if rng.gen_bool(0.7) { gen_polygon_case(rng) } else { gen_disc_case(rng) };
            if rng.gen_bool(0.15) {
                let f = base_frame(rng);
                c.two_step = Some((f.m, f.t));
            }
            c.via_json = rng.gen_bool(0.05);
            check(&c, st);
        }
        for _ in 0..n * 4 {
            if let Some(c) = gen_axis_aligned_case(rng) {
                check(&c, st);
            }
        }
    });
    ctx.set_min_nontrivial(10_000);
}

pub fn replay(ctx: &Ctx, case: &Value) {
    let mut st = Stats::new();
    if let Ok(c) = serde_json::from_value::<Case>(case.clone()) {
        check(&c, &mut st);
    }
    ctx.merge(st);
}
