//! C03 - the Lennard-Jones score is minus the crystal's lattice energy per molecule.
use std::f64::consts::PI;

use nalgebra::Point2;
use packing::traits::{Potential, State};
use packing::{LJShape2, PotentialState, LJ2};
use rand::Rng;
use serde::{Deserialize, Serialize};
use serde_json::{json, Value};

use crate::common::*;
use crate::libx::{self, build_potential, lattice_of, lj_atoms, to_affine, LjAtom, Params, ShapeSpec};
use crate::oracle::geom::{self, Affine};
use crate::oracle::groups;
use crate::oracle::lattice::Lattice;
use crate::oracle::lj::lj;
use super::history::{self, History};

#[derive(Clone, Debug, Serialize, Deserialize)]
pub struct Case {
    pub group: String,
    pub shape: ShapeSpec,
    pub params: Params,
    /// origin shift (fractional) used by the representation-independence clause
    pub shift: Option<[f64; 2]>,
    /// face-crossing clause: which coordinate is put at +-(1/2 - 1e-9)
    pub face: Option<u8>,
}

pub struct Reference {
    /// lattice energy per molecule with the library's own pair kernel
    pub energy: f64,
    /// same with the independent 12-6 law (only when all particles are alike)
    pub energy_law: Option<f64>,
    /// sum of |terms| per molecule: the scale for tolerances
    pub mag: f64,
    /// attractive magnitude per molecule (for uncut tolerances)
    pub attractive: f64,
    pub in_cell_pairs: u64,
    pub image_pairs: u64,
    pub max_lattice_index_with_energy: i64,
    pub beyond_third_shell: f64,
    /// the same contributions with their signs: `energy - beyond_signed` is the sum over three
    /// shells, the one specific wrong value the open finding stands for
    pub beyond_signed: f64,
    pub degenerate: bool,
    pub uncut: bool,
    /// smallest particle separation in units of the pair's sigma
    pub min_reduced_distance: f64,
    /// condition number of the sum: (cell size / smallest separation); rounding of a position
    /// by one ulp changes an r^-12 term by ~12 ulp x this factor
    pub conditioning: f64,
}

fn kernel(a: &LjAtom, pa: [f64; 2], b: &LjAtom, pb: [f64; 2]) -> f64 {
    let la = LJ2 { position: Point2::new(pa[0], pa[1]), sigma: a.sigma, epsilon: a.eps, cutoff: a.cutoff };
    let lb = LJ2 { position: Point2::new(pb[0], pb[1]), sigma: b.sigma, epsilon: b.eps, cutoff: b.cutoff };
    la.energy(&lb)
}

/// Exhaustive lattice sum: every pair of distinct molecule images within reach, each once.
pub fn reference(atoms: &[LjAtom], pl: &[Affine], lat: &Lattice, uncut_reach_sigma: f64) -> Reference {
    let n = pl.len();
    // furthest particle from its molecule's origin, measured on the placed copies (the linear
    // part of a placement is applied as it is: user groups may stretch a copy)
    let ext = pl.iter().flat_map(|t| atoms.iter().map(move |a| geom::norm(geom::sub(t.apply(a.p), t.t)))).fold(atoms.iter().map(|a| geom::norm(a.p)).fold(0., f64::max), f64::max);
    let uncut = atoms.iter().any(|a| a.cutoff.is_none());
    let smax = atoms.iter().map(|a| a.sigma).fold(0., f64::max);
    let rc = if uncut { uncut_reach_sigma * smax } else { atoms.iter().filter_map(|a| a.cutoff).fold(0., f64::max) };
    let reach = rc + 2. * ext + 1e-9;
    let alike = atoms.iter().all(|a| a.sigma == atoms[0].sigma && a.eps == atoms[0].eps && a.cutoff == atoms[0].cutoff);
    let placed: Vec<Vec<[f64; 2]>> = pl.iter().map(|t| atoms.iter().map(|a| t.apply(a.p)).collect()).collect();
    let (va, vb) = (lat.va(), lat.vb());
    let mut r = Reference { energy: 0., energy_law: if alike { Some(0.) } else { None }, mag: 0., attractive: 0., in_cell_pairs: 0, image_pairs: 0, max_lattice_index_with_energy: 0, beyond_third_shell: 0., beyond_signed: 0., degenerate: false, uncut, min_reduced_distance: f64::INFINITY, conditioning: 1. };
    // ordered pairs (i, (j,t)) with weight 1/2: i.e. every unordered pair once
    for i in 0..n {
        for j in 0..n {
            let dc = geom::sub(pl[j].t, pl[i].t);
            let f = lat.frac(dc);
            for (nn, mm) in lat.images_within(f, reach) {
                if i == j && nn == 0 && mm == 0 {
                    continue;
                }
                let shift = [nn as f64 * va[0] + mm as f64 * vb[0], nn as f64 * va[1] + mm as f64 * vb[1]];
                if geom::norm(geom::add(dc, shift)) > reach {
                    continue;
                }
                let mut pair = 0.;
                let mut any = false;
                for (ka, a) in atoms.iter().enumerate() {
                    for (kb, b) in atoms.iter().enumerate() {
                        let pa = placed[i][ka];
                        let pb = geom::add(placed[j][kb], shift);
                        let d = geom::dist(pa, pb);
                        if d == 0. {
                            r.degenerate = true;
                            continue;
                        }
                        if uncut && d > rc {
                            continue;
                        }
                        let e = kernel(a, pa, b, pb);
                        if !e.is_finite() {
                            r.degenerate = true;
                            continue;
                        }
                        if e != 0. {
                            any = true;
                        }
                        pair += e;
                        r.mag += 0.5 * e.abs();
                        let s = 0.5 * (a.sigma + b.sigma);
                        r.min_reduced_distance = r.min_reduced_distance.min(d / s);
                        if d / s < 1e-6 {
                            // two particles within a millionth of their size: the pair energy
                            // (beyond 1e72) is decided by the rounding of the positions, not by
                            // the crystal - nothing can be compared
                            r.degenerate = true;
                        }
                        r.attractive += 0.5 * 4. * (a.eps * b.eps).sqrt() * (s / d).powi(6);
                        if let Some(el) = r.energy_law.as_mut() {
                            *el += 0.5 * lj(d, a.sigma, a.eps, a.cutoff);
                        }
                    }
                }
                r.energy += 0.5 * pair;
                if any {
                    if nn == 0 && mm == 0 {
                        r.in_cell_pairs += 1;
                    } else {
                        r.image_pairs += 1;
                        let idx = nn.abs().max(mm.abs());
                        r.max_lattice_index_with_energy = r.max_lattice_index_with_energy.max(idx);
                        if idx > 3 {
                            r.beyond_third_shell += 0.5 * pair.abs();
                            r.beyond_signed += 0.5 * pair;
                        }
                    }
                }
            }
        }
    }
    let smin = atoms.iter().map(|a| a.sigma).fold(f64::INFINITY, f64::min);
    let dmin = (r.min_reduced_distance * smin).max(1e-300);
    let extent = lat.a.abs() + lat.b.abs() + 2. * ext;
    r.conditioning = (extent / dmin).max(1.);
    let nf = n.max(1) as f64;
    r.energy /= nf;
    r.mag /= nf;
    r.attractive /= nf;
    r.beyond_third_shell /= nf;
    r.beyond_signed /= nf;
    if let Some(el) = r.energy_law.as_mut() {
        *el /= nf;
    }
    r
}

fn viol(what: &str, c: &Case, detail: Value) -> Violation {
    Violation { kind: "c03.state".into(), signature: format!("PotentialState::score:{}", what), case: serde_json::to_value(c).unwrap(), detail }
}

fn build(c: &Case, p: &Params) -> Result<PotentialState<LJShape2>, String> {
    let shape = c.shape.lj().ok_or("no LJ shape")?;
    build_potential(shape, &c.group, p)
}

fn wrap(x: f64) -> f64 {
    let mut v = (x + 0.5).rem_euclid(1.) - 0.5;
    if v >= 0.5 {
        v -= 1.;
    }
    v
}

/// the open finding is one specific wrong value: the sum over three shells of images.  A score
/// is attributed to it only if it IS that value; anything else in the same region is another
/// defect.
fn is_three_shell_sum(score: f64, r: &Reference) -> bool {
    r.beyond_third_shell > 0.5 * tolerance(r) && (score + (r.energy - r.beyond_signed)).abs() <= tolerance(r)
}

/// tolerance for comparing a library score with a reference
fn tolerance(r: &Reference) -> f64 {
    // rounding: 1e-9 of the term magnitudes, more when particles nearly coincide (the r^-12
    // terms amplify the rounding of the coordinates by 12 x cell size / separation)
    let rounding = (1e-9 + 100. * f64::EPSILON * r.conditioning) * r.mag + 1e-12;
    if r.uncut {
        0.03 * r.attractive + rounding
    } else {
        rounding
    }
}

pub fn check(c: &Case, st: &mut Stats) {
    st.eval();
    let state = match build(c, &c.params) {
        Ok(s) => s,
        Err(e) => {
            st.inconclusive.push(e);
            return;
        }
    };
    let (s, r, lat, atoms) = match judge_absolute(&state, c, st) {
        Some(x) => x,
        None => return,
    };
    let tol = tolerance(&r);
    check_variants(c, s, &r, &lat, &atoms, tol, st);
}

/// clause 1 on the state in hand: score = - lattice energy per molecule (and = the 12-6 sum)
pub fn judge_absolute(state: &PotentialState<LJShape2>, c: &Case, st: &mut Stats) -> Option<(f64, Reference, Lattice, Vec<LjAtom>)> {
    let atoms = lj_atoms(&state.shape);
    let pl: Vec<Affine> = state.cartesian_positions().map(|t| to_affine(&t)).collect();
    let lat = lattice_of(&state.cell);
    let uncut = atoms.iter().any(|a| a.cutoff.is_none());
    let r = reference(&atoms, &pl, &lat, 40.);
    let score = state.score();
    let s = match score {
        Some(s) => s,
        None => {
            st.violation(viol("undefined-score", c, json!({})));
            return None;
        }
    };
    if r.degenerate || !s.is_finite() {
        st.count("degenerate_states_skipped(coincident particles)");
        return None;
    }
    if r.in_cell_pairs > 0 && r.image_pairs > 0 {
        st.nontrivial(hash64(&[hash_str(&c.group), hash_str(&serde_json::to_string(&c.shape).unwrap_or_default()), hash64(&c.params.quant()), c.shift.map(|s| q(s[0], 1e-6) ^ q(s[1], 1e-6).rotate_left(7)).unwrap_or(0), c.face.unwrap_or(9) as u64]));
    }
    st.count(&format!("max_lattice_index_carrying_energy[{}]", r.max_lattice_index_with_energy.min(6)));
    let dense = r.mag > 50.;
    st.count(if dense { "states_with_overlapping_molecules(|E| terms > 50 per molecule)" } else { "states_at_physical_densities" });
    let tol = tolerance(&r);
    // 1. absolute: score = - lattice energy per molecule
    if !((s + r.energy).abs() <= tol) {
        let what = if is_three_shell_sum(s, &r) {
            // every image inside the cutoff must be counted, however far in cell indices
            "images-beyond-third-shell-inside-cutoff"
        } else {
            "not-the-lattice-energy-per-molecule"
        };
        st.violation(viol(what, c, json!({"library_score": s, "minus_lattice_energy": -r.energy, "ratio": s / -r.energy, "tolerance": tol,
            "in_cell_pairs": r.in_cell_pairs, "image_pairs": r.image_pairs, "max_lattice_index": r.max_lattice_index_with_energy,
            "energy_beyond_third_shell": r.beyond_third_shell,
            "cell": {"a": lat.a, "b": lat.b, "angle": lat.theta}})));
        return None;
    }
    if let Some(el) = r.energy_law {
        if !((s + el).abs() <= tol.max(1e-9 * r.mag)) {
            st.violation(viol("not-the-12-6-lattice-sum", c, json!({"library_score": s, "minus_lattice_energy_by_law": -el})));
            return None;
        }
    }
    Some((s, r, lat, atoms))
}

fn check_variants(c: &Case, s: f64, r: &Reference, lat: &Lattice, atoms: &[LjAtom], tol: f64, st: &mut Stats) {
    // 2. the same crystal described differently scores the same
    let mut variants: Vec<(String, Params)> = vec![];
    if let Some(sh) = c.shift {
        let mut p = c.params;
        p.x = wrap(p.x + sh[0]);
        p.y = wrap(p.y + sh[1]);
        variants.push((format!("origin-shift {:?}", sh), p));
    }
    if let Some(k) = c.face {
        // a copy moved across a cell face: coordinate 1/2 - e versus -1/2 + e
        let e = 1e-9;
        let mut p1 = c.params;
        let mut p2 = c.params;
        if k == 0 {
            p1.x = 0.5 - e;
            p2.x = -0.5 + e;
        } else {
            p1.y = 0.5 - e;
            p2.y = -0.5 + e;
        }
        if let (Ok(s1), Ok(s2)) = (build(c, &p1), build(c, &p2)) {
            if let (Some(a), Some(b)) = (s1.score(), s2.score()) {
                st.count("face_crossing_pairs");
                let a1 = lj_atoms(&s1.shape);
                let pl1: Vec<Affine> = s1.cartesian_positions().map(|t| to_affine(&t)).collect();
                let r1 = reference(&a1, &pl1, &lattice_of(&s1.cell), 12.);
                let dr = 2. * e * (lat.a + lat.b) * 2.;
                let dmin = r1.min_reduced_distance * atoms.iter().map(|a| a.sigma).fold(f64::INFINITY, f64::min);
                if a.is_finite() && b.is_finite() && !r1.degenerate && !(dr / dmin < 1e-3) {
                    // the displacement is not small against the closest approach: the linear
                    // bound below says nothing
                    st.count("face_crossing_pairs_skipped(particles closer than 1000 displacements)");
                } else if a.is_finite() && b.is_finite() && !r1.degenerate {
                    // the two states differ by a displacement of 2e (fractional) of the copies;
                    // a term ~ r^-12 changes by at most ~13 dr/r
                    let slack = 13. * (dr / dmin) * (r1.mag + r1.attractive) * 4. + 2. * tolerance(&r1) + 1e-9;
                    if !((a - b).abs() <= slack) {
                        let a2 = lj_atoms(&s2.shape);
                        let pl2: Vec<Affine> = s2.cartesian_positions().map(|t| to_affine(&t)).collect();
                        let r2 = reference(&a2, &pl2, &lattice_of(&s2.cell), 12.);
                        let what = if (is_three_shell_sum(a, &r1) || is_three_shell_sum(b, &r2)) && (a + r1.energy - r1.beyond_signed).abs() <= tolerance(&r1) && (b + r2.energy - r2.beyond_signed).abs() <= tolerance(&r2) {
                            "images-beyond-third-shell-inside-cutoff"
                        } else {
                            "score-jumps-when-a-copy-crosses-a-cell-face"
                        };
                        st.violation(viol(what, c, json!({"coordinate": k, "score_at_plus_half_minus_e": a, "score_at_minus_half_plus_e": b, "slack": slack})));
                        return;
                    }
                }
            }
        }
    }
    for (name, p) in variants {
        if let Ok(s2) = build(c, &p) {
            if let Some(b) = s2.score() {
                st.count("origin_shift_pairs");
                if b.is_finite() && !((s - b).abs() <= 2. * tol) {
                    let a2 = lj_atoms(&s2.shape);
                    let pl2: Vec<Affine> = s2.cartesian_positions().map(|t| to_affine(&t)).collect();
                    let r2 = reference(&a2, &pl2, &lattice_of(&s2.cell), 12.);
                    let what = if (is_three_shell_sum(s, r) || is_three_shell_sum(b, &r2)) && (s + r.energy - r.beyond_signed).abs() <= tol && (b + r2.energy - r2.beyond_signed).abs() <= tolerance(&r2) {
                        "images-beyond-third-shell-inside-cutoff"
                    } else {
                        "same-crystal-different-score"
                    };
                    st.violation(viol(what, c, json!({"variant": name, "score": s, "score_of_equivalent_description": b, "tolerance": 2. * tol})));
                    return;
                }
            }
        }
    }
    st.sample(|| json!({"case": c, "library_score": s, "minus_lattice_energy": -r.energy, "in_cell_pairs": r.in_cell_pairs, "image_pairs": r.image_pairs}));
}

/// States with several occupied sites of different multiplicity (public
/// `PotentialState::initialise` with hand-made Wyckoff sites): the score is still minus the
/// lattice energy per molecule, whatever the partition of the molecules into sites.
pub fn check_multi_site(seed: u64, st: &mut Stats) {
    use packing::wallpaper::{Wallpaper, WyckoffSite};
    use packing::{CrystalFamily, Transform2};
    st.eval();
    let mut rng = crate::common::rng_for(seed, 333);
    let group = ["p2", "p1", "p2mg", "p1m1"][rng.gen_range(0, 4)];
    let wg = match libx::lib_group(group) {
        Ok(g) => g,
        Err(_) => return,
    };
    let general = match WyckoffSite::new(&wg) {
        Ok(s) => s,
        Err(_) => return,
    };
    let flags = (rng.gen_range(0u64, 5), rng.gen_bool(0.3), rng.gen_bool(0.3));
    let one = |ops: &[&str]| WyckoffSite { letter: 'b', symmetries: ops.iter().filter_map(|o| Transform2::from_operations(o).ok()).collect(), num_rotations: flags.0, mirror_primary: flags.1, mirror_secondary: flags.2 };
    // extra sites of multiplicity 1 (and 2): fewer copies than the general position
    let mut sites = vec![general.clone()];
    let many = rng.gen_range(0, 12) == 0;
    if many {
        // dozens of sites: 33..140 molecules in the cell (supercells, disordered structures)
        let order = general.symmetries.len();
        let total = [33usize, 64, 65, 100, 128, 140][rng.gen_range(0, 6)];
        while sites.len() * order < total {
            sites.push(general.clone());
        }
    }
    match if many { 9 } else { rng.gen_range(0, 3) } {
        9 => {}
        0 => sites.push(one(&["x,y"])),
        1 => {
            sites.push(one(&["x,y"]));
            sites.push(one(&["x,y"]));
        }
        _ => {
            sites.push(one(&["x,y", "-x,-y"]));
            sites.push(one(&["x,y"]));
        }
    }
    let shape = if rng.gen_bool(0.3) && !many { LJShape2::circle() } else { LJShape2::from_trimer(0.637556, 120., 1.) };
    let family = if libx::is_oblique(group) { CrystalFamily::Monoclinic } else { CrystalFamily::Orthorhombic };
    let state0 = PotentialState::initialise(shape, Wallpaper { name: group.to_string(), family }, &sites);
    // spread the sites out and choose the cell through JSON values (exact doubles)
    let mut v = match serde_json::to_value(&state0) {
        Ok(v) => v,
        Err(_) => return,
    };
    let nmol: usize = sites.iter().map(|s| s.symmetries.len()).sum();
    v["cell"]["length"] = json!(rng.gen_range(2.2, 4.) * (nmol as f64).sqrt());
    v["cell"]["ratio"] = json!(rng.gen_range(0.6, 1.));
    if libx::is_oblique(group) {
        v["cell"]["angle"] = json!(rng.gen_range(1.0, std::f64::consts::PI / 2.));
    }
    for i in 0..sites.len() {
        v["occupied_sites"][i]["x"] = json!(rng.gen_range(-0.5, 0.5));
        v["occupied_sites"][i]["y"] = json!(rng.gen_range(-0.5, 0.5));
        v["occupied_sites"][i]["angle"] = json!(rng.gen_range(0., 6.28));
    }
    let state: PotentialState<LJShape2> = match serde_json::from_value(v) {
        Ok(s) => s,
        Err(_) => return,
    };
    let atoms = lj_atoms(&state.shape);
    let pl: Vec<Affine> = state.cartesian_positions().map(|t| to_affine(&t)).collect();
    let lat = lattice_of(&state.cell);
    let r = reference(&atoms, &pl, &lat, 40.);
    let s = match state.score() {
        Some(s) if s.is_finite() => s,
        _ => return,
    };
    if r.degenerate {
        return;
    }
    st.nontrivial(hash64(&[334, seed]));
    st.count("multi_site_states");
    let tol = tolerance(&r);
    if !((s + r.energy).abs() <= tol) && !is_three_shell_sum(s, &r) {
        st.violation(Violation {
            kind: "c03.multisite".into(),
            signature: "PotentialState::score:not-the-lattice-energy-per-molecule:several-sites".into(),
            case: json!({"seed": seed}),
            detail: json!({"group": group, "site_multiplicities": sites.iter().map(|x| x.symmetries.len()).collect::<Vec<_>>(), "molecules": pl.len(), "library_score": s, "minus_lattice_energy_per_molecule": -r.energy, "tolerance": tol}),
        });
    }
}

/// translations of the origin that map the group's symmetry elements onto themselves
fn normaliser_shift<R: Rng>(rng: &mut R, group: &str) -> [f64; 2] {
    let half = |rng: &mut R| [0., 0.5][rng.gen_range(0, 2)];
    match group {
        "p1" => [rng.gen_range(-0.5, 0.5), rng.gen_range(-0.5, 0.5)],
        "p1m1" | "p1g1" => [half(rng), rng.gen_range(-0.5, 0.5)],
        _ => {
            let s = [half(rng), half(rng)];
            if s == [0., 0.] {
                [0.5, 0.5]
            } else {
                s
            }
        }
    }
}

pub fn gen_case<R: Rng>(rng: &mut R) -> Case {
    let group = groups::NAMES[rng.gen_range(0, 7)].to_string();
    let shape = if rng.gen_bool(0.15) { ShapeSpec::Circle } else { libx::gen::trimer(rng) };
    let copies = groups::group(&group).unwrap().ops.len() as f64;
    let ext = match &shape {
        ShapeSpec::Circle => 0.5,
        ShapeSpec::Trimer { radius, distance, .. } => distance + radius.max(1.),
        _ => 1.,
    };
    // cell area per molecule from overlapping (0.3) to dilute (6) molecule areas
    let k: f64 = 10f64.powf(rng.gen_range(-0.5, 0.8));
    let ratio = if rng.gen_bool(0.2) { 1. } else { rng.gen_range(0.25, 1.) };
    let angle = if rng.gen_bool(0.2) { PI / 2. } else { rng.gen_range(PI / 6., PI / 2.) };
    let sin = if libx::is_oblique(&group) { angle.sin() } else { 1. };
    let len = (copies * PI * ext * ext * k / (ratio * sin)).sqrt();
    let coord = |rng: &mut R| match rng.gen_range(0, 8) {
        0 => [-0.5, 0.5, 0., 0.25][rng.gen_range(0, 4)],
        _ => rng.gen_range(-0.5, 0.5),
    };
    let params = Params { len, ratio, angle, x: coord(rng), y: coord(rng), phi: rng.gen_range(0., 2. * PI) };
    let shift = if rng.gen_bool(0.6) { Some(normaliser_shift(rng, &group)) } else { None };
    let face = if rng.gen_bool(0.3) { Some(rng.gen_range(0, 2) as u8) } else { None };
    Case { group, shape, params, shift, face }
}

/// States of user-defined groups on other lattices (p4 on a square cell, p3 and p6 on the 60
/// degree cell): whatever copies the library places, the score is minus their lattice energy
/// per molecule.
pub fn check_user_group(seed: u64, st: &mut Stats) {
    use packing::CrystalFamily;
    st.eval();
    let mut rng = crate::common::rng_for(seed, 3333);
    let (name, family, ops): (&str, CrystalFamily, Vec<&str>) = match rng.gen_range(0, 4) {
        0 => ("p4", CrystalFamily::Tetragonal, vec!["x,y", "-y,x", "-x,-y", "y,-x"]),
        1 => ("p3", CrystalFamily::Hexagonal, vec!["x,y", "-y,x-y", "-x+y,-x"]),
        2 => ("p3", CrystalFamily::Hexagonal, vec!["x,y", "-x-y,x", "y,-x-y"]),
        _ => ("p6", CrystalFamily::Hexagonal, vec!["x,y", "-y,x-y", "-x+y,-x", "-x,-y", "y,-x+y", "x-y,x"]),
    };
    let g = packing::WallpaperGroup { name, family, wyckoff_str: ops.clone() };
    let shape = LJShape2::from_trimer(0.637556, [120., 180., 90.][rng.gen_range(0, 3)], rng.gen_range(0.8, 1.6));
    let s0 = match PotentialState::from_group(shape, &g) {
        Ok(s) => s,
        Err(_) => return,
    };
    let mut v = match serde_json::to_value(&s0) {
        Ok(v) => v,
        Err(_) => return,
    };
    v["cell"]["length"] = json!(rng.gen_range(4., 12.));
    v["occupied_sites"][0]["x"] = json!(rng.gen_range(-0.5, 0.5));
    v["occupied_sites"][0]["y"] = json!(rng.gen_range(-0.5, 0.5));
    v["occupied_sites"][0]["angle"] = json!(rng.gen_range(0., 6.28));
    let state: PotentialState<LJShape2> = match serde_json::from_value(v) {
        Ok(s) => s,
        Err(_) => return,
    };
    let atoms = lj_atoms(&state.shape);
    let pl: Vec<Affine> = state.cartesian_positions().map(|t| to_affine(&t)).collect();
    let lat = lattice_of(&state.cell);
    let r = reference(&atoms, &pl, &lat, 40.);
    let s = match state.score() {
        Some(s) if s.is_finite() => s,
        _ => return,
    };
    if r.degenerate {
        return;
    }
    st.nontrivial(hash64(&[3334, seed]));
    st.count("states_of_user_defined_groups_on_square_and_hexagonal_cells");
    let tol = tolerance(&r);
    if !((s + r.energy).abs() <= tol) && !is_three_shell_sum(s, &r) {
        st.violation(Violation {
            kind: "c03.usergroup".into(),
            signature: "PotentialState::score:not-the-lattice-energy-per-molecule:user-defined-group".into(),
            case: json!({ "user_group_seed": seed }),
            detail: json!({"group": name, "operations": ops, "molecules": pl.len(), "library_score": s, "minus_lattice_energy_per_molecule": -r.energy, "tolerance": tol, "cell": {"a": lat.a, "b": lat.b, "angle": lat.theta}}),
        });
    }
}

/// A molecule without any symmetry of its own (three unlike particles) in every group, its
/// orientation often exactly 0, pi/2, pi: with circles and symmetric trimers a copy that should
/// have been mirrored or turned looks the same as one that was not.
pub fn check_chiral(seed: u64, st: &mut Stats) {
    st.eval();
    let mut rng = crate::common::rng_for(seed, 3535);
    let group = groups::NAMES[rng.gen_range(0, 7)];
    let copies = groups::group(group).unwrap().ops.len() as f64;
    let p = Params {
        len: rng.gen_range(2.5, 6.) * copies.sqrt(),
        ratio: rng.gen_range(0.5, 1.),
        angle: rng.gen_range(1.0, PI / 2.),
        x: rng.gen_range(-0.5, 0.5),
        y: rng.gen_range(-0.5, 0.5),
        phi: if rng.gen_bool(0.6) { [0., 0., PI / 2., PI, 2. * PI][rng.gen_range(0, 5)] } else { rng.gen_range(0., 2. * PI) },
    };
    let state = match build_potential(super::c04::chiral_lj(), group, &p) {
        Ok(s) => s,
        Err(_) => return,
    };
    let atoms = lj_atoms(&state.shape);
    let pl: Vec<Affine> = state.cartesian_positions().map(|t| to_affine(&t)).collect();
    let lat = lattice_of(&state.cell);
    let r = reference(&atoms, &pl, &lat, 40.);
    let s = match state.score() {
        Some(s) if s.is_finite() => s,
        _ => return,
    };
    if r.degenerate {
        return;
    }
    st.nontrivial(hash64(&[3536, seed]));
    st.count("states_of_a_molecule_without_symmetry");
    let tol = tolerance(&r);
    if !((s + r.energy).abs() <= tol) && !is_three_shell_sum(s, &r) {
        st.violation(Violation {
            kind: "c03.chiral".into(),
            signature: "PotentialState::score:not-the-lattice-energy-per-molecule".into(),
            case: json!({ "chiral_seed": seed }),
            detail: json!({"group": group, "params": p.to_json(), "library_score": s, "minus_lattice_energy_per_molecule": -r.energy, "tolerance": tol}),
        });
    }
}

/// one Lennard-Jones state object edited again and again; clause 1 after every edit
pub fn check_history(h: &History, st: &mut Stats) {
    let before = st.violations.len();
    let shapes: Vec<LJShape2> = h.shapes.iter().filter_map(|s| s.lj()).collect();
    if shapes.len() != h.shapes.len() || shapes.is_empty() {
        return;
    }
    let state = match build_potential(shapes[0].clone(), &h.group, &h.start) {
        Ok(s) => s,
        Err(e) => {
            st.inconclusive.push(e);
            return;
        }
    };
    history::drive(h, state, &shapes, st, |s, _step, six, p, st| {
        // the reference enumerates every image inside the reach: bound its work
        let lat = lattice_of(&s.cell);
        let (ha, hb) = (lat.area() / lat.b.max(1e-300), lat.area() / lat.a.max(1e-300));
        let atoms = lj_atoms(&s.shape);
        let reach = atoms.iter().map(|a| a.cutoff.map(|c| c * a.sigma + 2.).unwrap_or(40. * a.sigma)).fold(0., f64::max);
        let n = s.total_shapes() as f64 * atoms.len() as f64;
        let work = (2. * reach / ha + 1.) * (2. * reach / hb + 1.) * n * n;
        if !(work < 3e5) {
            st.count("history_states_skipped(reference too large)");
            return;
        }
        st.eval();
        let c = Case { group: h.group.clone(), shape: h.shapes[six].clone(), params: *p, shift: None, face: None };
        let _ = judge_absolute(s, &c, st);
    });
    history::rewrap(st, before, "c03.history", h);
}

pub fn gen_history<R: Rng>(rng: &mut R) -> History {
    let group = groups::NAMES[rng.gen_range(0, 7)];
    let n = rng.gen_range(1, 4);
    let shapes: Vec<ShapeSpec> = (0..n).map(|_| if rng.gen_bool(0.3) { ShapeSpec::Circle } else { libx::gen::trimer(rng) }).collect();
    let copies = groups::group(group).unwrap().ops.len() as f64;
    history::gen_history(rng, group, shapes, true, 0.4 * copies.sqrt())
}

pub fn run(ctx: &Ctx) {
    ctx.set_rule("Lennard-Jones states of all 7 groups x {circle (uncut), trimers over the CLI's ranges (cutoff 3.5)} x cells (ratio 0.25-1, oblique angle pi/6-pi/2) at densities from strongly overlapping (0.3 molecule areas per molecule) to dilute (6), sites incl. special positions. Reference: exhaustive sum over EVERY pair of distinct molecule images within cutoff + extents (uncut: 40 sigma), each once, divided by N; pair kernel = the library's LJ2::energy (checked by C13) and, for like particles, the independent 12-6 law. Tolerance 1e-9 of the summed term magnitudes (uncut: 3% of the attractive sum). Also states of a molecule without symmetry (three unlike particles) at orientations 0, pi/2, pi and random. Also states of user-defined p4 / p3 / p6 groups on square and 60-degree cells (the copies the library places, stretched or not). Also state objects that live through histories of 3-13 edits (several parameters at once, shape or cell replaced, clone(), JSON round trip), clause 1 after every edit. Also states with several occupied sites of different multiplicity (and with dozens of sites: 33-140 molecules per cell) (PotentialState::initialise with hand-made sites). Metamorphic: a copy moved across a cell face (1/2-1e-9 vs -1/2+1e-9) and origin shifts by the group's normaliser translations must not change the score. Non-trivial = at least one in-cell pair and one image pair carry energy; distinct by quantised parameters");
    ctx.assume("pair energies are the library's own (C13 decides them); placements are read from cartesian_positions()");
    let n = ctx.tier.pick(5_000u64, 300_000u64);
    par_shards(ctx, 3, 64, |_, rng, st| {
        for _ in 0..n {
            check(&gen_case(rng), st);
        }
        for _ in 0..(n / 40).max(5) {
            check_history(&gen_history(rng), st);
        }
        for _ in 0..(n / 30).max(5) {
            check_user_group(rng.gen(), st);
        }
        for _ in 0..(n / 20).max(5) {
            check_chiral(rng.gen(), st);
        }
        for _ in 0..(n / 50).max(5) {
            check_multi_site(rng.gen(), st);
        }
    });
    ctx.set_min_nontrivial(2_000);
}

pub fn replay(ctx: &Ctx, case: &Value) {
    let mut st = Stats::new();
    if let (Some(seed), true) = (case["seed"].as_u64(), case.get("group").is_none()) {
        check_multi_site(seed, &mut st);
    } else if let Some(seed) = case["chiral_seed"].as_u64() {
        check_chiral(seed, &mut st);
    } else if let Some(seed) = case["user_group_seed"].as_u64() {
        check_user_group(seed, &mut st);
    } else if let Ok(h) = serde_json::from_value::<History>(case.clone()) {
        check_history(&h, &mut st);
    } else if let Ok(c) = serde_json::from_value::<Case>(case.clone()) {
        check(&c, &mut st);
    }
    ctx.merge(st);
}
