//! C16 - the built-in tables are the seven named wallpaper groups (finite, exhaustive).
use std::collections::BTreeSet;

use packing::wallpaper::{WallpaperGroups, WyckoffSite};
use serde_json::json;

use crate::common::*;
use crate::libx::{lib_group, to_affine};
use crate::oracle::groups::{self, Op};

fn viol(group: &str, what: &str, detail: serde_json::Value) -> Violation {
    Violation {
        kind: "c16.table".into(),
        signature: format!("wallpaper::get_wallpaper_group:{}:{}", group, what),
        case: json!({ "group": group }),
        detail,
    }
}

/// read the library's operations for a group through the real path
fn lib_ops(group: &str) -> Result<(Vec<Op>, String), String> {
    let wg = lib_group(group)?;
    let site = WyckoffSite::new(&wg).map_err(|e| e.to_string())?;
    let mut ops = vec![];
    for t in site.symmetries.iter() {
        let a = to_affine(t);
        let mut w = [[0i32; 2]; 2];
        for i in 0..2 {
            for j in 0..2 {
                let v = a.m[i][j];
                if v != v.round() || v.abs() > 1. {
                    return Err(format!("non-integer linear entry {}", v));
                }
                w[i][j] = v as i32;
            }
        }
        let mut t2 = [0i32; 2];
        for i in 0..2 {
            let v = a.t[i] * 2.;
            if v != v.round() {
                return Err(format!("translation {} is not a multiple of 1/2", a.t[i]));
            }
            t2[i] = v as i32;
        }
        ops.push(Op { w, t2 });
    }
    Ok((ops, format!("{:?}", wg.family)))
}

pub fn check_group(name: &str, st: &mut Stats) {
    let or = groups::group(name).unwrap();
    st.eval();
    let (ops, family) = match lib_ops(name) {
        Ok(x) => x,
        Err(e) => {
            st.violation(viol(name, "unreadable", json!({ "error": e })));
            return;
        }
    };
    st.sample(|| json!({"group": name, "library_ops": ops.iter().map(|o| json!({"W": o.w, "t_halves": o.t2, "kind": o.kind()})).collect::<Vec<_>>(), "family": family}));
    // order
    st.eval();
    st.nontrivial(hash64(&[hash_str(name), 1]));
    if ops.len() != or.ops.len() {
        st.violation(viol(name, "order", json!({"library": ops.len(), "ita": or.ops.len()})));
    }
    // exactly the ITA general positions (as a set, modulo lattice translations)
    let lib_set: BTreeSet<Op> = ops.iter().map(|o| o.reduced()).collect();
    let ita_set: BTreeSet<Op> = or.ops.iter().map(|o| o.reduced()).collect();
    st.eval();
    st.nontrivial(hash64(&[hash_str(name), 2]));
    if lib_set != ita_set {
        st.violation(viol(
            name,
            "not-the-ita-positions",
            json!({"library": format!("{:?}", lib_set), "ita": format!("{:?}", ita_set)}),
        ));
    }
    if lib_set.len() != ops.len() {
        st.violation(viol(name, "duplicate-operation", json!({"library": format!("{:?}", ops)})));
    }
    // identity
    st.eval();
    st.nontrivial(hash64(&[hash_str(name), 3]));
    if !lib_set.contains(&Op::new([[1, 0], [0, 1]], [0, 0])) {
        st.violation(viol(name, "no-identity", json!({})));
    }
    // closure + inverses over all pairs
    for (i, a) in ops.iter().enumerate() {
        let mut has_inverse = false;
        for (j, b) in ops.iter().enumerate() {
            st.eval();
            st.nontrivial(hash64(&[hash_str(name), 4, i as u64, j as u64]));
            let c = a.compose(b);
            if !lib_set.contains(&c) {
                st.violation(viol(name, "not-closed", json!({"a": format!("{:?}", a), "b": format!("{:?}", b), "ab": format!("{:?}", c)})));
            }
            if c == Op::new([[1, 0], [0, 1]], [0, 0]) {
                has_inverse = true;
            }
        }
        if !has_inverse {
            st.violation(viol(name, "no-inverse", json!({"a": format!("{:?}", a)})));
        }
    }
    // mirror / glide / two-fold content
    let cnt = |k: &str| ops.iter().filter(|o| o.kind() == k).count();
    st.eval();
    st.nontrivial(hash64(&[hash_str(name), 5]));
    if cnt("mirror") != or.mirrors || cnt("glide") != or.glides || cnt("twofold") != or.twofolds || cnt("other") != 0 {
        st.violation(viol(
            name,
            "content",
            json!({"library": {"mirror": cnt("mirror"), "glide": cnt("glide"), "twofold": cnt("twofold"), "other": cnt("other")},
                   "ita": {"mirror": or.mirrors, "glide": or.glides, "twofold": or.twofolds}}),
        ));
    }
    // family, and invariance of every cell of that family: W^T G W = G for all metrics G of
    // the family.  Oblique (Monoclinic): needs W = +-I.  Rectangular: needs W diagonal.
    st.eval();
    st.nontrivial(hash64(&[hash_str(name), 6]));
    if family != or.family {
        st.violation(viol(name, "family", json!({"library": family, "ita": or.family})));
    }
    for o in ops.iter() {
        st.eval();
        let ok = match family.as_str() {
            "Monoclinic" => o.w == [[1, 0], [0, 1]] || o.w == [[-1, 0], [0, -1]],
            "Orthorhombic" => o.w[0][1] == 0 && o.w[1][0] == 0 && o.w[0][0].abs() == 1 && o.w[1][1].abs() == 1,
            // not used by the seven groups: check numerically on sample metrics
            _ => metric_invariant_numeric(o, &family),
        };
        if !ok {
            st.violation(viol(name, "cell-not-invariant", json!({"op": format!("{:?}", o), "family": family})));
        }
    }
}

fn metric_invariant_numeric(o: &Op, family: &str) -> bool {
    let metrics: Vec<(f64, f64, f64)> = match family {
        "Tetragonal" => vec![(1., 1., 0.), (4., 4., 0.)],
        "Hexagonal" => vec![(1., 1., 0.5), (4., 4., 2.)],
        _ => vec![(1., 2., 0.3)],
    };
    let w = |i: usize, j: usize| o.w[i][j] as f64;
    metrics.iter().all(|&(g11, g22, g12)| {
        let g = [[g11, g12], [g12, g22]];
        let mut r = [[0.; 2]; 2];
        for i in 0..2 {
            for j in 0..2 {
                for k in 0..2 {
                    for l in 0..2 {
                        r[i][j] += w(k, i) * g[k][l] * w(l, j);
                    }
                }
            }
        }
        (0..2).all(|i| (0..2).all(|j| (r[i][j] - g[i][j]).abs() < 1e-12))
    })
}

// ---------------------------------------------------------------------------------------
// process histories: the tables must be the seven groups whatever else the process has done
// before - groups of the user's own (WallpaperGroup is a public struct, a user group may carry
// any name, a built-in one included), states built from them, on this thread or another.
// A history needs a process of its own: anything remembered between calls is process state,
// and this harness has long since used every built-in table by the time a check runs.

const FAMILIES: [packing::CrystalFamily; 4] =
    [packing::CrystalFamily::Monoclinic, packing::CrystalFamily::Orthorhombic, packing::CrystalFamily::Hexagonal, packing::CrystalFamily::Tetragonal];

fn op_pool() -> Vec<String> {
    let mut v = vec![];
    for sx in ["x", "-x"].iter() {
        for sy in ["y", "-y"].iter() {
            for tx in ["", "+1/2"].iter() {
                for ty in ["", "+1/2"].iter() {
                    v.push(format!("{}{},{}{}", sx, tx, sy, ty));
                }
            }
        }
    }
    v
}

/// one foreign use of a group that carries `name`: returns a description
fn foreign_use<R: rand::Rng>(rng: &mut R, name: &str, log: &mut Vec<String>) {
    use packing::traits::State;
    let pool = op_pool();
    let builtin = lib_group(name).ok();
    let m_builtin = builtin.as_ref().map(|g| g.wyckoff_str.len()).unwrap_or(2);
    let strings: Vec<String> = match rng.gen_range(0, 4) {
        // another built-in group's table under this name
        0 => {
            let other = groups::NAMES[rng.gen_range(0, 7)];
            lib_group(other).map(|g| g.wyckoff_str.iter().map(|s| s.to_string()).collect()).unwrap_or_default()
        }
        // same multiplicity, other operations
        1 | 2 => {
            let mut v = vec!["x,y".to_string()];
            while v.len() < m_builtin {
                let c = pool[rng.gen_range(0, pool.len())].clone();
                if !v.contains(&c) {
                    v.push(c);
                }
            }
            v
        }
        // a group written out over a supercell: hundreds of operations
        3 if rng.gen_range(0, 3) == 0 => {
            let n = [8usize, 9, 6][rng.gen_range(0, 3)];
            let mut v = vec![];
            for (sx, sy) in [("x", "y"), ("-x", "-y"), ("-x", "y"), ("x", "-y")].iter() {
                for i in 0..n {
                    for j in 0..n {
                        let tx = if i == 0 { String::new() } else { format!("+{}/{}", i, n) };
                        let ty = if j == 0 { String::new() } else { format!("+{}/{}", j, n) };
                        v.push(format!("{}{},{}{}", sx, tx, sy, ty));
                    }
                }
            }
            v
        }
        // any multiplicity
        _ => {
            let m = [1usize, 2, 3, 4, 8][rng.gen_range(0, 5)];
            let mut v = vec!["x,y".to_string()];
            while v.len() < m {
                let c = pool[rng.gen_range(0, pool.len())].clone();
                if !v.contains(&c) {
                    v.push(c);
                }
            }
            v
        }
    };
    let family = FAMILIES[rng.gen_range(0, 4)];
    // one use in five is of a group the parser rejects (an operation pasted from typeset tables,
    // a third coordinate, a decimal): the error must stay that use's own business
    let mut strings = strings;
    if rng.gen_range(0, 5) == 0 && !strings.is_empty() {
        let bad = ["\u{2212}x,y", "x,y,z", "x+0.5,y", "", "x;y", "x,y+\u{bd}"][rng.gen_range(0, 6)];
        let at = rng.gen_range(0, strings.len());
        strings[at] = bad.to_string();
    }
    let g = packing::WallpaperGroup { name, family, wyckoff_str: strings.iter().map(|s| s.as_str()).collect() };
    let how = rng.gen_range(0, 3);
    let r = std::panic::catch_unwind(std::panic::AssertUnwindSafe(|| match how {
        0 => WyckoffSite::new(&g).map(|s| s.symmetries.len()).unwrap_or(0),
        1 => packing::PackedState::from_group(packing::LineShape::polygon(4).unwrap(), &g).map(|s| s.total_shapes()).unwrap_or(0),
        _ => packing::PotentialState::from_group(packing::LJShape2::circle(), &g).map(|s| s.total_shapes()).unwrap_or(0),
    }));
    log.push(format!("user group named {} {:?} {:?} via {} -> {:?}", name, family, strings, ["WyckoffSite::new", "PackedState::from_group", "PotentialState::from_group"][how], r.ok()));
}

fn builtin_use<R: rand::Rng>(rng: &mut R, name: &str, log: &mut Vec<String>) {
    use packing::traits::State;
    if let Ok(g) = lib_group(name) {
        let how = rng.gen_range(0, 2);
        let n = match how {
            0 => WyckoffSite::new(&g).map(|s| s.symmetries.len()).unwrap_or(0),
            _ => packing::PackedState::from_group(packing::LineShape::polygon(4).unwrap(), &g).map(|s| s.total_shapes()).unwrap_or(0),
        };
        log.push(format!("built-in {} via {} -> {}", name, ["WyckoffSite::new", "PackedState::from_group"][how], n));
    }
}

/// runs in a fresh process, before anything else has touched the library
pub fn child_main(seed: u64) -> ! {
    use rand::Rng;
    let prev = std::panic::take_hook();
    std::panic::set_hook(Box::new(|_| {}));
    let mut rng = rng_for(seed, 1616);
    let mut log: Vec<String> = vec![];
    let n = rng.gen_range(3, 30);
    // names whose first use in this process is a user's group, and names used as built-ins first
    let threaded = rng.gen_bool(0.3);
    let mut body = |rng: &mut rand_pcg::Pcg64Mcg, log: &mut Vec<String>| {
        for _ in 0..n {
            let name = groups::NAMES[rng.gen_range(0, 7)];
            if rng.gen_bool(0.65) {
                // (a user group under a built-in name, or under a name of its own)
                let own = ["p4", "my group", "p2gm", "cm"][rng.gen_range(0, 4)];
                let use_own = rng.gen_bool(0.3);
                foreign_use(rng, if use_own { own } else { name }, log);
            } else {
                builtin_use(rng, name, log);
            }
        }
    };
    if threaded {
        let mut r2 = rng_for(seed, 1617);
        let l2 = std::thread::spawn(move || {
            let mut log = vec![];
            for _ in 0..6 {
                let name = groups::NAMES[r2.gen_range(0, 7)];
                foreign_use(&mut r2, name, &mut log);
            }
            log
        })
        .join()
        .unwrap_or_default();
        log.extend(l2.into_iter().map(|l| format!("[other thread] {}", l)));
    }
    body(&mut rng, &mut log);
    std::panic::set_hook(prev);
    let mut st = Stats::new();
    for name in groups::NAMES.iter() {
        check_group(name, &mut st);
    }
    let out = json!({
        "evaluations": st.evaluations,
        "history": log,
        "violations": st.violations.iter().map(|v| json!({"signature": v.signature, "detail": v.detail})).collect::<Vec<_>>(),
    });
    println!("C16CHILD {}", out);
    std::process::exit(0);
}

pub fn check_history(seed: u64, st: &mut Stats) {
    st.eval();
    let exe = match std::env::current_exe() {
        Ok(e) => e,
        Err(e) => {
            st.inconclusive.push(format!("current_exe: {}", e));
            return;
        }
    };
    let out = match std::process::Command::new(exe).arg("C16").env("PV_C16_HISTORY", seed.to_string()).stderr(std::process::Stdio::null()).output() {
        Ok(o) => o,
        Err(e) => {
            st.inconclusive.push(format!("cannot spawn history child: {}", e));
            return;
        }
    };
    let txt = String::from_utf8_lossy(&out.stdout);
    let line = match txt.lines().find(|l| l.starts_with("C16CHILD ")) {
        Some(l) => &l[9..],
        None => {
            st.inconclusive.push(format!("history child {} gave no report (status {:?})", seed, out.status.code()));
            return;
        }
    };
    let v: serde_json::Value = match serde_json::from_str(line) {
        Ok(v) => v,
        Err(e) => {
            st.inconclusive.push(format!("history child report unreadable: {}", e));
            return;
        }
    };
    st.add("table_comparisons_after_a_history", v["evaluations"].as_u64().unwrap_or(0));
    st.add("history_steps", v["history"].as_array().map(|a| a.len() as u64).unwrap_or(0));
    st.nontrivial(hash64(&[seed, 1616]));
    st.count("process_histories_run");
    if let Some(vs) = v["violations"].as_array() {
        for x in vs.iter() {
            st.violation(Violation {
                kind: "c16.history".into(),
                signature: format!("{}:after-user-groups-in-the-same-process", x["signature"].as_str().unwrap_or("wallpaper::get_wallpaper_group")),
                case: json!({ "history_seed": seed }),
                detail: json!({"what": x["detail"], "history": v["history"]}),
            });
        }
    }
    if st.samples.len() < 2 {
        st.samples.push(json!({"history_seed": seed, "history": v["history"], "violations": 0}));
    }
}

pub fn run(ctx: &Ctx) {
    ctx.set_rule("finite enumeration (repeated at the end of random process histories - user-defined groups carrying built-in names, other tables, other multiplicities and families, used through WyckoffSite::new / PackedState::from_group / PotentialState::from_group before, between and after the built-in ones, on one or two threads, each history in a fresh process): for each of the 7 group names, the operations parsed through get_wallpaper_group -> WyckoffSite::new are compared with the ITA general positions (set equality mod lattice), identity, closure and inverses over ALL ordered pairs, order, mirror/glide/two-fold counts by (det, trace, intrinsic translation), crystal family and invariance of the family's cells; every elementary comparison counts as one distinct non-trivial case");
    *ctx.exhaustive.lock().unwrap() = true;
    ctx.assume("the ITA tables in harness/src/oracle/groups.rs are transcribed correctly");
    let mut st = Stats::new();
    // the CLI's list of names must offer the seven groups
    let variants: Vec<String> = WallpaperGroups::variants().iter().map(|s| s.to_string()).collect();
    for name in groups::NAMES.iter() {
        st.eval();
        if !variants.iter().any(|v| v == name) {
            st.violation(viol(name, "missing-group", json!({"variants": variants})));
            continue;
        }
        check_group(name, &mut st);
    }
    ctx.extra("groups_checked", json!(groups::NAMES));
    ctx.merge(st);
    // the same enumeration at the end of random process histories, each in a process of its own
    let n = ctx.tier.pick(2u64, 40u64);
    let seed = ctx.seed;
    par_shards(ctx, 16, 16, |i, _, st| {
        for k in 0..n {
            check_history(seed.wrapping_mul(1_000_003).wrapping_add(i * 10_000 + k), st);
        }
    });
}

pub fn replay(ctx: &Ctx, case: &serde_json::Value) {
    let mut st = Stats::new();
    if let Some(h) = case.get("history_seed").and_then(|h| h.as_u64()) {
        check_history(h, &mut st);
    }
    if let Some(g) = case.get("group").and_then(|g| g.as_str()) {
        if groups::group(g).is_some() {
            check_group(g, &mut st);
        }
    }
    ctx.merge(st);
}
