//! C16 - the built-in tables are the seven named wallpaper groups (finite, exhaustive).
use std::collections::BTreeSet;

use packing::wallpaper::{WallpaperGroups, WyckoffSite};
use serde_json::json;

use crate::common::*;
use crate::libx::{lib_group, to_affine};
use crate::oracle::groups::{self, Op};

fn viol(group: &str, what: &str, detail: serde_json::Value) -> Violation {
    Violation {
        kind: "c16.table".into(),
        signature: format!("wallpaper::get_wallpaper_group:{}:{}", group, what),
        case: json!({ "group": group }),
        detail,
    }
}

/// read the library's operations for a group through the real path
fn lib_ops(group: &str) -> Result<(Vec<Op>, String), String> {
    let wg = lib_group(group)?;
    let site = WyckoffSite::new(&wg).map_err(|e| e.to_string())?;
    let mut ops = vec![];
    for t in site.symmetries.iter() {
        let a = to_affine(t);
        let mut w = [[0i32; 2]; 2];
        for i in 0..2 {
            for j in 0..2 {
                let v = a.m[i][j];
                if v != v.round() || v.abs() > 1. {
                    return Err(format!("non-integer linear entry {}", v));
                }
                w[i][j] = v as i32;
            }
        }
        let mut t2 = [0i32; 2];
        for i in 0..2 {
            let v = a.t[i] * 2.;
            if v != v.round() {
                return Err(format!("translation {} is not a multiple of 1/2", a.t[i]));
            }
            t2[i] = v as i32;
        }
        ops.push(Op { w, t2 });
    }
    Ok((ops, format!("{:?}", wg.family)))
}

pub fn check_group(name: &str, st: &mut Stats) {
    let or = groups::group(name).unwrap();
    st.eval();
    let (ops, family) = match lib_ops(name) {
        Ok(x) => x,
        Err(e) => {
            st.violation(viol(name, "unreadable", json!({ "error": e })));
            return;
        }
    };
    st.sample(|| json!({"group": name, "library_ops": ops.iter().map(|o| json!({"W": o.w, "t_halves": o.t2, "kind": o.kind()})).collect::<Vec<_>>(), "family": family}));
    // order
    st.eval();
    st.nontrivial(hash64(&[hash_str(name), 1]));
    if ops.len() != or.ops.len() {
        st.violation(viol(name, "order", json!({"library": ops.len(), "ita": or.ops.len()})));
    }
    // exactly the ITA general positions (as a set, modulo lattice translations)
    let lib_set: BTreeSet<Op> = ops.iter().map(|o| o.reduced()).collect();
    let ita_set: BTreeSet<Op> = or.ops.iter().map(|o| o.reduced()).collect();
    st.eval();
    st.nontrivial(hash64(&[hash_str(name), 2]));
    if lib_set != ita_set {
        st.violation(viol(
            name,
            "not-the-ita-positions",
            json!({"library": format!("{:?}", lib_set), "ita": format!("{:?}", ita_set)}),
        ));
    }
    if lib_set.len() != ops.len() {
        st.violation(viol(name, "duplicate-operation", json!({"library": format!("{:?}", ops)})));
    }
    // identity
    st.eval();
    st.nontrivial(hash64(&[hash_str(name), 3]));
    if !lib_set.contains(&Op::new([[1, 0], [0, 1]], [0, 0])) {
        st.violation(viol(name, "no-identity", json!({})));
    }
    // closure + inverses over all pairs
    for (i, a) in ops.iter().enumerate() {
        let mut has_inverse = false;
        for (j, b) in ops.iter().enumerate() {
            st.eval();
            st.nontrivial(hash64(&[hash_str(name), 4, i as u64, j as u64]));
            let c = a.compose(b);
            if !lib_set.contains(&c) {
                st.violation(viol(name, "not-closed", json!({"a": format!("{:?}", a), "b": format!("{:?}", b), "ab": format!("{:?}", c)})));
            }
            if c == Op::new([[1, 0], [0, 1]], [0, 0]) {
                has_inverse = true;
            }
        }
        if !has_inverse {
            st.violation(viol(name, "no-inverse", json!({"a": format!("{:?}", a)})));
        }
    }
    // mirror / glide / two-fold content
    let cnt = |k: &str| ops.iter().filter(|o| o.kind() == k).count();
    st.eval();
    st.nontrivial(hash64(&[hash_str(name), 5]));
    if cnt("mirror") != or.mirrors || cnt("glide") != or.glides || cnt("twofold") != or.twofolds || cnt("other") != 0 {
        st.violation(viol(
            name,
            "content",
            json!({"library": {"mirror": cnt("mirror"), "glide": cnt("glide"), "twofold": cnt("twofold"), "other": cnt("other")},
                   "ita": {"mirror": or.mirrors, "glide": or.glides, "twofold": or.twofolds}}),
        ));
    }
    // family, and invariance of every cell of that family: W^T G W = G for all metrics G of
    // the family.  Oblique (Monoclinic): needs W = +-I.  Rectangular: needs W diagonal.
    st.eval();
    st.nontrivial(hash64(&[hash_str(name), 6]));
    if family != or.family {
        st.violation(viol(name, "family", json!({"library": family, "ita": or.family})));
    }
    for o in ops.iter() {
        st.eval();
        let ok = match family.as_str() {
            "Monoclinic" => o.w == [[1, 0], [0, 1]] || o.w == [[-1, 0], [0, -1]],
            "Orthorhombic" => o.w[0][1] == 0 && o.w[1][0] == 0 && o.w[0][0].abs() == 1 && o.w[1][1].abs() == 1,
            // not used by the seven groups: check numerically on sample metrics
            _ => metric_invariant_numeric(o, &family),
        };
        if !ok {
            st.violation(viol(name, "cell-not-invariant", json!({"op": format!("{:?}", o), "family": family})));
        }
    }
}

fn metric_invariant_numeric(o: &Op, family: &str) -> bool {
    let metrics: Vec<(f64, f64, f64)> = match family {
        "Tetragonal" => vec![(1., 1., 0.), (4., 4., 0.)],
        "Hexagonal" => vec![(1., 1., 0.5), (4., 4., 2.)],
        _ => vec![(1., 2., 0.3)],
    };
    let w = |i: usize, j: usize| o.w[i][j] as f64;
    metrics.iter().all(|&(g11, g22, g12)| {
        let g = [[g11, g12], [g12, g22]];
        let mut r = [[0.; 2]; 2];
        for i in 0..2 {
            for j in 0..2 {
                for k in 0..2 {
                    for l in 0..2 {
                        r[i][j] += w(k, i) * g[k][l] * w(l, j);
                    }
                }
            }
        }
        (0..2).all(|i| (0..2).all(|j| (r[i][j] - g[i][j]).abs() < 1e-12))
    })
}

pub fn run(ctx: &Ctx) {
    ctx.set_rule("finite enumeration: for each of the 7 group names, the operations parsed through get_wallpaper_group -> WyckoffSite::new are compared with the ITA general positions (set equality mod lattice), identity, closure and inverses over ALL ordered pairs, order, mirror/glide/two-fold counts by (det, trace, intrinsic translation), crystal family and invariance of the family's cells; every elementary comparison counts as one distinct non-trivial case");
    *ctx.exhaustive.lock().unwrap() = true;
    ctx.assume("the ITA tables in harness/src/oracle/groups.rs are transcribed correctly");
    let mut st = Stats::new();
    // the CLI's list of names must offer the seven groups
    let variants: Vec<String> = WallpaperGroups::variants().iter().map(|s| s.to_string()).collect();
    for name in groups::NAMES.iter() {
        st.eval();
        if !variants.iter().any(|v| v == name) {
            st.violation(viol(name, "missing-group", json!({"variants": variants})));
            continue;
        }
        check_group(name, &mut st);
    }
    ctx.extra("groups_checked", json!(groups::NAMES));
    ctx.merge(st);
}

pub fn replay(ctx: &Ctx, case: &serde_json::Value) {
    let mut st = Stats::new();
    if let Some(g) = case.get("group").and_then(|g| g.as_str()) {
        if groups::group(g).is_some() {
            check_group(g, &mut st);
        }
    }
    ctx.merge(st);
}
