//! C18 - the temperature follows the requested annealing schedule.
use serde::{Deserialize, Serialize};
use serde_json::{json, Value};

use super::mc::{self, OptCfg, ScriptedCase};
use crate::common::*;
use crate::observe::scripted::Script;
use crate::oracle::stats;

#[derive(Clone, Debug, Serialize, Deserialize)]
pub struct Case {
    pub kt_start: f64,
    pub kt_finish: Option<f64>,
    pub kt_ratio: Option<f64>,
    pub loops: u64,
    /// proposals per inner loop (a multiple of 3: anchor, probe, sentinel)
    pub inner: u64,
    pub k: usize,
    pub seed: u64,
    pub via_api: bool,
    /// inner loops [from, to) in which every proposal is rejected (undefined score)
    #[serde(default)]
    pub jam: Vec<(u64, u64)>,
    /// steps beyond a whole number of inner loops (they are not run, but must not disturb the
    /// schedule of the loops that are)
    #[serde(default)]
    pub extra_steps: u64,
    /// fixed probe depth instead of one derived from the expected temperature
    #[serde(default)]
    pub depth: Option<f64>,
    /// the builder lives through a history of earlier setter calls (see OptCfg)
    #[serde(default)]
    pub builder_history: Option<u64>,
    /// the run is asked for this many loops ("run until converged": a step count beyond any
    /// counter's width) and leaves through the convergence exit after the six loops observed;
    /// the schedule is that of the loops requested
    #[serde(default)]
    pub total_loops: Option<u64>,
    /// probes this many times deeper than the temperature expected in their loop (rare
    /// acceptances: p = e^-factor)
    #[serde(default)]
    pub depth_factor: Option<f64>,
    /// a convergence threshold that never ends the run (the anchors improve the score in every
    /// loop): the schedule must not depend on whether a threshold is set
    #[serde(default)]
    pub convergence: Option<f64>,
}

/// allowed temperature interval [lo, hi] of inner loop l (None: nothing is required)
pub fn allowed_kt(c: &Case, l: u64) -> Option<(f64, f64)> {
    let s = c.kt_start;
    if s == 0. {
        return Some((0., 0.));
    }
    if l == 0 {
        return Some((s, s));
    }
    if let Some(r) = c.kt_ratio {
        let f = 1. - r;
        let v = s * f.powi(l as i32);
        return Some((v, v));
    }
    if let Some(fin) = c.kt_finish {
        let requested = c.total_loops.unwrap_or(c.loops);
        let big_l = requested as f64;
        if requested <= 2 {
            // only: between start and finish
            return Some((s.min(fin), s.max(fin)));
        }
        // a constant factor f with the last loop within one cooling step of kt_finish:
        // (fin/s)^(1/(L-2)) .. (fin/s)^(1/L)
        let f1 = (fin / s).powf(1. / (big_l - 2.));
        let f2 = (fin / s).powf(1. / big_l);
        let a = s * f1.powi(l as i32);
        let b = s * f2.powi(l as i32);
        return Some((a.min(b), a.max(b)));
    }
    // neither: "some constant factor" - only the first loop is pinned down
    None
}

/// probe depth for loop l: near the expected temperature (p ~ 1/e is the most informative)
fn probe_depth(c: &Case, l: u64) -> f64 {
    if let Some(d) = c.depth {
        return d;
    }
    let floor = c.kt_start.max(1e-300) * 1e-7;
    match allowed_kt(c, l) {
        Some((lo, hi)) if hi > 0. => (lo * hi).sqrt().max(floor) * c.depth_factor.unwrap_or(1.),
        Some(_) => 1.0, // zero temperature: any worse probe must be rejected
        None => c.kt_start.max(floor),
    }
}

pub fn scripted(c: &Case) -> ScriptedCase {
    let d: Vec<f64> = (0..c.loops.max(1)).map(|l| probe_depth(c, l)).collect();
    ScriptedCase {
        init: vec![0.; c.k],
        bounds: vec![(-1e6, 1e6); c.k],
        script: Script::Probe { d, inner: c.inner, jam: c.jam.clone() },
        cfg: OptCfg { steps: c.total_loops.unwrap_or(c.loops).saturating_mul(c.inner).saturating_add(c.extra_steps), inner_steps: c.inner, kt_start: c.kt_start, kt_finish: c.kt_finish, kt_ratio: c.kt_ratio, max_step_size: 1e-6, seed: c.seed, convergence: if c.total_loops.is_some() { Some(1e300) } else { c.convergence }, builder_history: c.builder_history },
        via_api: c.via_api, aliases: vec![], score_offset: 0.,
    }
}

fn viol(what: &str, c: &Case, detail: Value) -> Violation {
    Violation { kind: "c18.run".into(), signature: format!("optimise_state:temperature-schedule:{}", what), case: serde_json::to_value(c).unwrap(), detail }
}

pub fn check(c: &Case, st: &mut Stats) {
    st.eval();
    if c.via_api && c.kt_finish.is_none() {
        // the builder API cannot leave kt_finish unset; such a case is not constructible
        return;
    }
    let sc = scripted(c);
    let r = mc::run_probe(&sc, false);
    if let Some(p) = &r.panicked {
        st.count(&format!("runs_that_panicked[{}](not a C18 event; C20 decides)", p.chars().take(50).collect::<String>()));
        return;
    }
    let t = &r.tally;
    let loops = c.loops as usize;
    if c.loops >= 3 {
        st.nontrivial(hash_str(&serde_json::to_string(c).unwrap_or_default()));
    }
    st.add("probes_resolved", t.per_loop.iter().map(|x| x.1).sum::<u64>());
    st.add("probes_dropped_as_ambiguous", t.dropped_ambiguous);
    // windows of loops (so that runs with very short loops still have counts to judge)
    let w = (loops / 25).max(1);
    let mut windows = vec![];
    let mut l0 = 0usize;
    while l0 < loops {
        let l1 = (l0 + w).min(loops);
        let mut acc = 0u64;
        let mut n = 0u64;
        let (mut elo, mut ehi) = (0f64, 0f64);
        let mut constrained = true;
        let (mut h1, mut h2) = ((0u64, 0u64), (0u64, 0u64));
        for l in l0..l1 {
            let (a, m) = t.per_loop.get(l).copied().unwrap_or((0, 0));
            if m == 0 {
                continue;
            }
            acc += a;
            n += m;
            let dl = t.d_sum.get(l).copied().unwrap_or(0.) / m as f64;
            match allowed_kt(c, l as u64) {
                Some((lo, hi)) => {
                    let p = |kt: f64| if kt == 0. { 0. } else { (-dl / kt).exp() };
                    elo += m as f64 * p(lo);
                    ehi += m as f64 * p(hi);
                }
                None => constrained = false,
            }
            let a1 = t.first_half.get(l).copied().unwrap_or((0, 0));
            let a2 = t.second_half.get(l).copied().unwrap_or((0, 0));
            h1 = (h1.0 + a1.0, h1.1 + a1.1);
            h2 = (h2.0 + a2.0, h2.1 + a2.1);
        }
        if n > 0 {
            windows.push(json!({"loops": [l0, l1], "accepted": acc, "of": n, "allowed_frequency": if constrained { json!([elo / n as f64, ehi / n as f64]) } else { json!(null) }}));
            if c.kt_start == 0. {
                if acc > 0 {
                    st.violation(viol("zero-temperature-does-not-stay-zero", c, json!({"loops": [l0, l1], "worse_probes_accepted": acc, "of": n})));
                    return;
                }
            } else if constrained {
                let (plo, phi) = (elo / n as f64, ehi / n as f64);
                let bound = stats::tail_bound_interval(acc, n, plo.min(phi), plo.max(phi));
                if bound < 1e-12 {
                    let what = if c.kt_ratio.is_some() { "ratio-schedule-not-followed" } else if l0 == 0 && w == 1 { "first-loop-not-at-kt_start" } else { "finish-schedule-not-followed" };
                    st.violation(viol(what, c, json!({"loops": [l0, l1], "accepted": acc, "of": n, "observed_frequency": acc as f64 / n as f64,
                        "allowed_frequency_interval": [plo, phi], "allowed_kT_first_loop_of_window": allowed_kt(c, l0 as u64), "chernoff_bound": bound, "all_windows_so_far": windows})));
                    return;
                }
                // constant within a loop: both halves compatible with the same interval
                for (name, h) in [("first-half", h1), ("second-half", h2)].iter() {
                    if h.1 > 0 {
                        let b = stats::tail_bound_interval(h.0, h.1, plo.min(phi), plo.max(phi));
                        if b < 1e-12 {
                            st.violation(viol("temperature-not-constant-within-a-loop", c, json!({"loops": [l0, l1], "half": name, "accepted": h.0, "of": h.1, "allowed_frequency_interval": [plo, phi], "chernoff_bound": b})));
                            return;
                        }
                    }
                }
            }
        }
        l0 = l1;
    }
    st.count(&format!("schedule[{}]", if c.kt_start == 0. { "zero" } else if c.kt_ratio.is_some() && c.kt_finish.is_some() { "ratio+finish" } else if c.kt_ratio.is_some() { "ratio" } else if c.kt_finish.is_some() { "finish" } else { "neither" }));
    st.sample(|| json!({"case": c, "windows": windows.iter().take(6).collect::<Vec<_>>()}));
}

pub fn cases(tier: Tier, seed: u64) -> Vec<Case> {
    let n = tier.pick(20_000u64, 600_000u64); // probes per loop in the few-loops configurations
    let mut out = vec![];
    let mut push = |kt_start: f64, kt_finish: Option<f64>, kt_ratio: Option<f64>, loops: u64, inner: u64, via_api: bool| {
        let i = out.len() as u64;
        out.push(Case { kt_start, kt_finish, kt_ratio, loops, inner, k: if i % 2 == 0 { 6 } else { 16 }, seed: seed.wrapping_mul(7919).wrapping_add(i), via_api, jam: vec![], extra_steps: 0, depth: None, builder_history: None, total_loops: None, depth_factor: None, convergence: None });
    };
    // ratio given (exact schedule), with and without a finishing temperature also set
    for &(s, r) in [(0.1, 0.0), (1., 0.1), (0.5, 0.5), (1., 0.9)].iter() {
        for &l in [1u64, 2, 3, 10, 50].iter() {
            let per = (n * 10 / l.max(10)).max(300);
            push(s, None, Some(r), l, 3 * per, false);
            push(s, Some(0.001), Some(r), l, 3 * per, true);
        }
    }
    push(1., Some(1e-3), Some(0.1), 10, 3 * n, false);
    // very many tiny loops
    let many = tier.pick(20_000u64, 400_000u64);
    push(1., None, Some(0.0005), many, 3, false);
    push(1., None, Some(0.001), many, 6, false);
    push(0.5, None, Some(0.002), many / 4, 30, false);
    push(1., Some(0.05), None, many, 3, false);
    // long runs of fully rejected loops in the middle (the step adaptation bottoms out)
    for &(inner, jam_from, jam_len, r) in [(3u64, 40u64, 60u64, 0.004), (6, 30, 90, 0.004), (1, 30, 25, 0.002), (12, 20, 140, 0.003)].iter() {
        let loops = jam_from + jam_len + many / 20;
        let i = out.len() as u64;
        out.push(Case { kt_start: 1., kt_finish: None, kt_ratio: Some(r), loops, inner: if inner < 3 { 3 } else { inner }, k: 6, seed: seed.wrapping_mul(7919).wrapping_add(i), via_api: false, jam: vec![(jam_from, jam_from + jam_len)], extra_steps: 0, depth: None, builder_history: None, total_loops: None, depth_factor: None, convergence: None });
    }
    let mut push = |kt_start: f64, kt_finish: Option<f64>, kt_ratio: Option<f64>, loops: u64, inner: u64, via_api: bool| {
        let i = out.len() as u64;
        out.push(Case { kt_start, kt_finish, kt_ratio, loops, inner, k: if i % 2 == 0 { 6 } else { 16 }, seed: seed.wrapping_mul(7919).wrapping_add(i), via_api, jam: vec![], extra_steps: 0, depth: None, builder_history: None, total_loops: None, depth_factor: None, convergence: None });
    };
    // finishing temperature given
    for &(s, f) in [(0.1, 1e-3), (1., 0.01), (0.5, 0.5), (1e-3, 0.1)].iter() {
        for &l in [1u64, 2, 3, 10, 50].iter() {
            let per = (n * 10 / l.max(10)).max(300);
            push(s, Some(f), None, l, 3 * per, false);
            push(s, Some(f), None, l, 3 * per, true);
        }
    }
    // steps that are not a whole number of loops: the loops that run keep their schedule
    for &(s, f, l) in [(1., 1e-4, 3u64), (0.1, 1e-3, 2), (1., 1e-4, 4), (1., 0.01, 5), (1e-3, 0.1, 3)].iter() {
        for &frac in [0.999, 0.5, 0.25].iter() {
            let inner = 3 * n;
            let i = out.len() as u64;
            out.push(Case { kt_start: s, kt_finish: Some(f), kt_ratio: None, loops: l, inner, k: 6, seed: seed.wrapping_mul(7919).wrapping_add(i), via_api: i % 2 == 0, jam: vec![], extra_steps: ((inner as f64) * frac) as u64, depth: None, builder_history: None, total_loops: None, depth_factor: None, convergence: None });
        }
    }
    // zero temperature: no worse move is accepted however small it is
    for &d in [5e-324, 1e-300, 1e-100, 1e-20, 1e-16, 1e-12, 1e-8].iter() {
        let i = out.len() as u64;
        out.push(Case { kt_start: 0., kt_finish: if i % 2 == 0 { Some(0.1) } else { None }, kt_ratio: if i % 3 == 0 { Some(0.5) } else { None }, loops: 3, inner: 3 * n / 2, k: 6, seed: seed.wrapping_mul(7919).wrapping_add(i), via_api: false, jam: vec![], extra_steps: 0, depth: Some(d), builder_history: None, total_loops: None, depth_factor: None, convergence: None });
    }
    let mut push = |kt_start: f64, kt_finish: Option<f64>, kt_ratio: Option<f64>, loops: u64, inner: u64, via_api: bool| {
        let i = out.len() as u64;
        out.push(Case { kt_start, kt_finish, kt_ratio, loops, inner, k: if i % 2 == 0 { 6 } else { 16 }, seed: seed.wrapping_mul(7919).wrapping_add(i), via_api, jam: vec![], extra_steps: 0, depth: None, builder_history: None, total_loops: None, depth_factor: None, convergence: None });
    };
    // neither
    push(0.3, None, None, 1, 3 * n, false);
    push(0.3, None, None, 5, 3 * n, false);
    // zero temperature stays zero
    for &l in [1u64, 3, 10].iter() {
        push(0., Some(0.1), None, l, 3 * n / 2, false);
        push(0., None, Some(0.5), l, 3 * n / 2, false);
        push(0., None, None, l, 3 * n / 2, false);
        push(0., Some(0.001), None, l, 3 * n / 2, true);
    }
    // ... also when the cooling factor has a magnitude above 1 and the run is long enough for
    // factor^loops to overflow (0 x inf is not 0): 2^1024, (-3)^647, 1.5^1751, (-2)^1024
    for &(r, l) in [(-1., 1100u64), (4., 700), (-0.5, 1800), (3., 1100)].iter() {
        push(0., None, Some(r), l, 6, false);
        push(0., Some(0.1), Some(r), l, 6, true);
    }
    // "run until converged": more loops requested than a 32-bit (and a 31-bit, 33-bit) counter
    // holds; the convergence exit ends the run after six loops, whose temperatures must be those
    // of the schedule requested (cooling over billions of loops: practically constant)
    for (j, &total) in [(1u64 << 32) + 3, 1u64 << 32, (1u64 << 32) + 1, (1u64 << 31) + 5, (1u64 << 33) + 2, 1u64 << 40, (1u64 << 32) - 1].iter().enumerate() {
        let i = out.len() as u64;
        let (s, f) = [(1., 1e-3), (0.1, 10.), (0.5, 1e-6)][j % 3];
        out.push(Case { kt_start: s, kt_finish: Some(f), kt_ratio: None, loops: 6, inner: 3 * n / 2, k: 6, seed: seed.wrapping_mul(7919).wrapping_add(i), via_api: j % 2 == 1, jam: vec![], extra_steps: 0, depth: None, builder_history: None, total_loops: Some(total), depth_factor: None, convergence: None });
        // and with a ratio: (1 - r)^l for the loops that run
        if j < 3 {
            let i = out.len() as u64;
            out.push(Case { kt_start: 1., kt_finish: None, kt_ratio: Some(0.5), loops: 6, inner: 3 * n / 2, k: 6, seed: seed.wrapping_mul(7919).wrapping_add(i), via_api: false, jam: vec![], extra_steps: 0, depth: None, builder_history: None, total_loops: Some(total), depth_factor: None, convergence: None });
        }
    }
    // heating schedules (a ratio below zero multiplies the temperature) with probes several kT
    // deep: what is rarely accepted at the loop's own temperature would never be at the last one's
    for (j, &(r, l)) in [(-9., 2u64), (-9., 3), (-99., 2), (-1., 6), (-3., 4)].iter().enumerate() {
        for &df in [4., 6.].iter() {
            let i = out.len() as u64;
            out.push(Case { kt_start: 1e-3, kt_finish: None, kt_ratio: Some(r), loops: l, inner: 3 * n * 2, k: 6, seed: seed.wrapping_mul(7919).wrapping_add(i), via_api: j % 2 == 0, jam: vec![], extra_steps: 0, depth: None, builder_history: None, total_loops: None, depth_factor: Some(df), convergence: None });
        }
    }
    // with a convergence threshold that the improving anchors never let the run meet
    let with_threshold: Vec<Case> = out
        .iter()
        .enumerate()
        .filter(|(i, c)| i % 3 == 0 && c.total_loops.is_none() && c.jam.is_empty() && c.loops >= 2 && c.loops * c.inner <= 3 * n * 10)
        .map(|(i, c)| {
            let mut c = c.clone();
            c.convergence = Some([0., -1., 1e-300][i % 3]);
            c
        })
        .collect();
    out.extend(with_threshold);
    // a builder that has been used before: every other configuration a second time, reached
    // through a history of earlier settings
    let again: Vec<Case> = out
        .iter()
        .enumerate()
        .filter(|(i, c)| i % 2 == 1 && c.loops * c.inner <= 3 * n * 10)
        .map(|(i, c)| {
            let mut c = c.clone();
            c.builder_history = Some(seed.wrapping_mul(104_729).wrapping_add(i as u64));
            c
        })
        .collect();
    out.extend(again);
    out
}

pub fn run(ctx: &Ctx) {
    ctx.set_rule("anchor/probe/sentinel scripts whose probe depth in inner loop l is set near the temperature the requested schedule implies (p ~ 1/e); configurations: kt_ratio given (exact schedule kt_start (1-ratio)^l; also with kt_finish set at the same time), kt_finish given (allowed: a constant factor between (finish/start)^(1/(L-2)) and (finish/start)^(1/L), i.e. the last loop within one cooling step of kt_finish; cooling and heating; heating by factors 2-100 per loop with probes 4 and 6 kT deep), neither (first loop only), kt_start = 0 (every worse probe in every loop rejected, also over 700-1800 loops with cooling factors 2, -3, 1.5, -2 whose powers overflow); L in {1,2,3,10,50} and thousands of 3- or 6-step loops; the same schedules with a convergence threshold set that is never met; runs asked for 2^31..2^40 loops that leave through the convergence exit after six; through the CLI parser and the builder API, on fresh builders and on builders with a history of earlier setter calls (other step counts, loop lengths, temperatures first; clones). Per window of loops the acceptance count is compared with the probability interval implied by the allowed temperature interval (Chernoff/KL bound < 1e-12 to flag); first and second halves of the loops are compared with the same interval (constancy within a loop). Non-trivial = configurations with >= 3 loops; distinct by configuration");
    ctx.assume("temperature is inferred from acceptance frequencies; resolution ~1.3/sqrt(n) relative per window");
    let cs = cases(ctx.tier, ctx.seed);
    let prev = std::panic::take_hook();
    std::panic::set_hook(Box::new(|_| {}));
    {
        use rayon::prelude::*;
        let all: Vec<Stats> = cs
            .par_iter()
            .map(|c| {
                let mut st = Stats::new();
                check(c, &mut st);
                st
            })
            .collect();
        for s in all {
            ctx.merge(s);
        }
    }
    std::panic::set_hook(prev);
    ctx.set_min_nontrivial(30);
}

pub fn replay(ctx: &Ctx, case: &Value) {
    let prev = std::panic::take_hook();
    std::panic::set_hook(Box::new(|_| {}));
    let mut st = Stats::new();
    if let Ok(c) = serde_json::from_value::<Case>(case.clone()) {
        check(&c, &mut st);
    }
    std::panic::set_hook(prev);
    ctx.merge(st);
}
