//! Conservative binomial tail bounds (Chernoff / Kullback-Leibler).

/// KL divergence D(q || p) of Bernoulli distributions
pub fn kl(q: f64, p: f64) -> f64 {
    let t = |a: f64, b: f64| if a <= 0. { 0. } else { a * (a / b).ln() };
    if (p <= 0. && q > 0.) || (p >= 1. && q < 1.) {
        return f64::INFINITY;
    }
    t(q, p) + t(1. - q, 1. - p)
}

/// Upper bound on P[X/n at least as far from p as k/n, on the side where k lies] for
/// X ~ Binomial(n,p):  exp(-n D(k/n || p)).
pub fn tail_bound(k: u64, n: u64, p: f64) -> f64 {
    if n == 0 {
        return 1.;
    }
    let qh = k as f64 / n as f64;
    if (qh - p).abs() < 1e-15 {
        return 1.;
    }
    (-(n as f64) * kl(qh, p)).exp()
}

/// Smallest tail bound over every p in [plo, phi]: i.e. the observation is incompatible
/// with the whole interval only if this is tiny.
pub fn tail_bound_interval(k: u64, n: u64, plo: f64, phi: f64) -> f64 {
    if n == 0 {
        return 1.;
    }
    let qh = k as f64 / n as f64;
    if qh >= plo && qh <= phi {
        return 1.;
    }
    let p = if qh < plo { plo } else { phi };
    tail_bound(k, n, p)
}

pub fn lag1_autocorr(xs: &[bool]) -> f64 {
    let n = xs.len();
    if n < 3 {
        return 0.;
    }
    let mean = xs.iter().filter(|b| **b).count() as f64 / n as f64;
    let var = mean * (1. - mean);
    if var <= 0. {
        return 0.;
    }
    let mut s = 0.;
    for i in 0..n - 1 {
        s += (xs[i] as u8 as f64 - mean) * (xs[i + 1] as u8 as f64 - mean);
    }
    s / ((n - 1) as f64 * var)
}
