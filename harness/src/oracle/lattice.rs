//! The lattice A=(a,0), B=(b cos t, b sin t) and complete image enumeration.
use super::geom::P;

#[derive(Clone, Copy, Debug)]
pub struct Lattice {
    pub a: f64,
    pub b: f64,
    pub theta: f64,
}

impl Lattice {
    pub fn va(&self) -> P {
        [self.a, 0.]
    }
    pub fn vb(&self) -> P {
        [self.b * self.theta.cos(), self.b * self.theta.sin()]
    }
    pub fn cart(&self, fx: f64, fy: f64) -> P {
        let (a, b) = (self.va(), self.vb());
        [fx * a[0] + fy * b[0], fx * a[1] + fy * b[1]]
    }
    /// inverse map Cartesian -> fractional
    pub fn frac(&self, p: P) -> P {
        let (a, b) = (self.va(), self.vb());
        let det = a[0] * b[1] - a[1] * b[0];
        [(p[0] * b[1] - p[1] * b[0]) / det, (a[0] * p[1] - a[1] * p[0]) / det]
    }
    pub fn area(&self) -> f64 {
        let (a, b) = (self.va(), self.vb());
        (a[0] * b[1] - a[1] * b[0]).abs()
    }
    /// (distance between consecutive lattice lines parallel to B, same for A)
    pub fn heights(&self) -> (f64, f64) {
        let s = self.theta.sin().abs();
        (self.a * s, self.b * s)
    }
    /// All integer (n,m) such that a point with fractional offset `f` from the origin,
    /// translated by nA+mB, can lie within distance `dist` of the origin.
    /// |p| >= |fx+n| * hA and |p| >= |fy+m| * hB, so the box below is a complete superset.
    pub fn images_within(&self, f: P, dist: f64) -> Vec<(i64, i64)> {
        let (ha, hb) = self.heights();
        if !(ha > 0.) || !(hb > 0.) || !dist.is_finite() {
            return vec![];
        }
        let rx = dist / ha;
        let ry = dist / hb;
        let n0 = (-rx - f[0]).ceil() as i64 - 1;
        let n1 = (rx - f[0]).floor() as i64 + 1;
        let m0 = (-ry - f[1]).ceil() as i64 - 1;
        let m1 = (ry - f[1]).floor() as i64 + 1;
        let mut out = Vec::with_capacity(((n1 - n0 + 1) * (m1 - m0 + 1)).max(0) as usize);
        for n in n0..=n1 {
            for m in m0..=m1 {
                out.push((n, m));
            }
        }
        out
    }
}
