//! General positions of the seven supported plane groups, standard setting, transcribed
//! from International Tables for Crystallography vol. A (plane groups 1-4, 6-8).
//! Linear parts are integer matrices, translations are stored in halves.

#[derive(Clone, Copy, Debug, PartialEq, Eq, Hash, PartialOrd, Ord)]
pub struct Op {
    /// row-major linear part acting on fractional coordinates
    pub w: [[i32; 2]; 2],
    /// translation, in units of 1/2
    pub t2: [i32; 2],
}

impl Op {
    pub const fn new(w: [[i32; 2]; 2], t2: [i32; 2]) -> Op {
        Op { w, t2 }
    }
    pub fn det(&self) -> i32 {
        self.w[0][0] * self.w[1][1] - self.w[0][1] * self.w[1][0]
    }
    pub fn trace(&self) -> i32 {
        self.w[0][0] + self.w[1][1]
    }
    pub fn apply(&self, x: f64, y: f64) -> (f64, f64) {
        (
            self.w[0][0] as f64 * x + self.w[0][1] as f64 * y + self.t2[0] as f64 / 2.,
            self.w[1][0] as f64 * x + self.w[1][1] as f64 * y + self.t2[1] as f64 / 2.,
        )
    }
    /// composition self o other, translation reduced modulo the lattice
    pub fn compose(&self, o: &Op) -> Op {
        let mut w = [[0; 2]; 2];
        for i in 0..2 {
            for j in 0..2 {
                w[i][j] = self.w[i][0] * o.w[0][j] + self.w[i][1] * o.w[1][j];
            }
        }
        let t = [
            self.w[0][0] * o.t2[0] + self.w[0][1] * o.t2[1] + self.t2[0],
            self.w[1][0] * o.t2[0] + self.w[1][1] * o.t2[1] + self.t2[1],
        ];
        Op { w, t2: [t[0].rem_euclid(2), t[1].rem_euclid(2)] }
    }
    pub fn reduced(&self) -> Op {
        Op { w: self.w, t2: [self.t2[0].rem_euclid(2), self.t2[1].rem_euclid(2)] }
    }
    /// classification by (det, trace, intrinsic translation)
    pub fn kind(&self) -> &'static str {
        match (self.det(), self.trace()) {
            (1, 2) => "identity",
            (1, -2) => "twofold",
            (-1, 0) => {
                // intrinsic translation = component of t along the invariant axis:
                // (W t + t)/2 ; non-zero (mod lattice) => glide
                let wt = [
                    self.w[0][0] * self.t2[0] + self.w[0][1] * self.t2[1] + self.t2[0],
                    self.w[1][0] * self.t2[0] + self.w[1][1] * self.t2[1] + self.t2[1],
                ];
                // wt is in units of 1/2 of (2 * intrinsic); intrinsic = wt/4 lattice units
                if wt[0].rem_euclid(4) == 0 && wt[1].rem_euclid(4) == 0 {
                    "mirror"
                } else {
                    "glide"
                }
            }
            _ => "other",
        }
    }
}

#[derive(Clone, Debug)]
pub struct Group {
    pub name: &'static str,
    /// crystal family (2-D crystal system) of the group: its cells are invariant
    pub family: &'static str,
    pub ops: Vec<Op>,
    pub mirrors: usize,
    pub glides: usize,
    pub twofolds: usize,
}

pub const NAMES: [&str; 7] = ["p1", "p2", "p1m1", "p1g1", "p2mm", "p2mg", "p2gg"];

const E: [[i32; 2]; 2] = [[1, 0], [0, 1]];
const R2: [[i32; 2]; 2] = [[-1, 0], [0, -1]];
const MX: [[i32; 2]; 2] = [[-1, 0], [0, 1]]; // x -> -x
const MY: [[i32; 2]; 2] = [[1, 0], [0, -1]]; // y -> -y

pub fn group(name: &str) -> Option<Group> {
    let (family, ops, mirrors, glides, twofolds): (&str, Vec<Op>, usize, usize, usize) = match name {
        "p1" => ("Monoclinic", vec![Op::new(E, [0, 0])], 0, 0, 0),
        "p2" => ("Monoclinic", vec![Op::new(E, [0, 0]), Op::new(R2, [0, 0])], 0, 0, 1),
        "p1m1" => ("Orthorhombic", vec![Op::new(E, [0, 0]), Op::new(MX, [0, 0])], 1, 0, 0),
        "p1g1" => ("Orthorhombic", vec![Op::new(E, [0, 0]), Op::new(MX, [0, 1])], 0, 1, 0),
        "p2mm" => (
            "Orthorhombic",
            vec![Op::new(E, [0, 0]), Op::new(R2, [0, 0]), Op::new(MX, [0, 0]), Op::new(MY, [0, 0])],
            2,
            0,
            1,
        ),
        "p2mg" => (
            "Orthorhombic",
            vec![Op::new(E, [0, 0]), Op::new(R2, [0, 0]), Op::new(MX, [1, 0]), Op::new(MY, [1, 0])],
            1,
            1,
            1,
        ),
        "p2gg" => (
            "Orthorhombic",
            vec![Op::new(E, [0, 0]), Op::new(R2, [0, 0]), Op::new(MX, [1, 1]), Op::new(MY, [1, 1])],
            0,
            2,
            1,
        ),
        _ => return None,
    };
    Some(Group { name: NAMES.iter().find(|n| **n == name).copied()?, family, ops, mirrors, glides, twofolds })
}

pub fn all() -> Vec<Group> {
    NAMES.iter().map(|n| group(n).unwrap()).collect()
}
