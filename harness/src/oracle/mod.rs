//! Independent reference models.  Nothing in here calls into `packing`.
pub mod geom;
pub mod groups;
pub mod lattice;
pub mod lj;
pub mod stats;
pub mod xjson;
