//! Shifted, truncated 12-6 Lennard-Jones law.
pub fn lj(r: f64, sigma: f64, eps: f64, cutoff: Option<f64>) -> f64 {
    let raw = |r: f64| {
        let s6 = (sigma / r).powi(6);
        4. * eps * (s6 * s6 - s6)
    };
    match cutoff {
        Some(rc) => {
            if r < rc {
                raw(r) - raw(rc)
            } else {
                0.
            }
        }
        None => raw(r),
    }
}
