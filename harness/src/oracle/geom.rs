//! Exact-geometry reference: affine maps, convex separating-axis penetration depth,
//! disc gaps, shoelace area and union-of-discs area (Green's theorem over exposed arcs).

use std::f64::consts::PI;

pub type P = [f64; 2];

#[derive(Clone, Copy, Debug, PartialEq)]
pub struct Affine {
    /// row-major linear part
    pub m: [[f64; 2]; 2],
    pub t: P,
}

impl Affine {
    pub fn identity() -> Affine {
        Affine { m: [[1., 0.], [0., 1.]], t: [0., 0.] }
    }
    pub fn rot(phi: f64, t: P) -> Affine {
        let (s, c) = phi.sin_cos();
        Affine { m: [[c, -s], [s, c]], t }
    }
    pub fn apply(&self, p: P) -> P {
        [
            self.m[0][0] * p[0] + self.m[0][1] * p[1] + self.t[0],
            self.m[1][0] * p[0] + self.m[1][1] * p[1] + self.t[1],
        ]
    }
    pub fn lin(&self, p: P) -> P {
        [self.m[0][0] * p[0] + self.m[0][1] * p[1], self.m[1][0] * p[0] + self.m[1][1] * p[1]]
    }
    /// self o other
    pub fn mul(&self, o: &Affine) -> Affine {
        let mut m = [[0.; 2]; 2];
        for i in 0..2 {
            for j in 0..2 {
                m[i][j] = self.m[i][0] * o.m[0][j] + self.m[i][1] * o.m[1][j];
            }
        }
        Affine { m, t: self.apply(o.t) }
    }
    pub fn translated(&self, d: P) -> Affine {
        Affine { m: self.m, t: [self.t[0] + d[0], self.t[1] + d[1]] }
    }
    pub fn det(&self) -> f64 {
        self.m[0][0] * self.m[1][1] - self.m[0][1] * self.m[1][0]
    }
    /// max |M^T M - I|
    pub fn orthogonality_defect(&self) -> f64 {
        let m = &self.m;
        let a = m[0][0] * m[0][0] + m[1][0] * m[1][0] - 1.;
        let b = m[0][0] * m[0][1] + m[1][0] * m[1][1];
        let d = m[0][1] * m[0][1] + m[1][1] * m[1][1] - 1.;
        a.abs().max(b.abs()).max(d.abs())
    }
}

pub fn sub(a: P, b: P) -> P {
    [a[0] - b[0], a[1] - b[1]]
}
pub fn add(a: P, b: P) -> P {
    [a[0] + b[0], a[1] + b[1]]
}
pub fn norm(a: P) -> f64 {
    a[0].hypot(a[1])
}
pub fn dist(a: P, b: P) -> f64 {
    norm(sub(a, b))
}

/// Oracle-side shape: geometry only.
#[derive(Clone, Debug, PartialEq)]
pub enum OShape {
    /// vertices in order
    Poly(Vec<P>),
    /// (centre, radius)
    Discs(Vec<(P, f64)>),
}

impl OShape {
    pub fn enclosing_radius(&self) -> f64 {
        match self {
            OShape::Poly(v) => v.iter().map(|p| norm(*p)).fold(0., f64::max),
            OShape::Discs(d) => d.iter().map(|(c, r)| norm(*c) + r).fold(0., f64::max),
        }
    }
    pub fn placed(&self, t: &Affine) -> OShape {
        match self {
            OShape::Poly(v) => OShape::Poly(v.iter().map(|p| t.apply(*p)).collect()),
            // radii are unchanged by rigid motions / reflections
            OShape::Discs(d) => OShape::Discs(d.iter().map(|(c, r)| (t.apply(*c), *r)).collect()),
        }
    }
    pub fn area(&self) -> f64 {
        match self {
            OShape::Poly(v) => shoelace(v).abs(),
            OShape::Discs(d) => union_area(d),
        }
    }
    pub fn is_convex(&self) -> bool {
        match self {
            OShape::Poly(v) => convex(v),
            OShape::Discs(_) => true,
        }
    }
    /// characteristic points used for set comparison under symmetry
    pub fn points(&self) -> Vec<(P, f64)> {
        match self {
            OShape::Poly(v) => v.iter().map(|p| (*p, 0.)).collect(),
            OShape::Discs(d) => d.clone(),
        }
    }
}

pub fn shoelace(v: &[P]) -> f64 {
    let n = v.len();
    let mut s = 0.;
    for i in 0..n {
        let (p, q) = (v[i], v[(i + 1) % n]);
        s += p[0] * q[1] - q[0] * p[1];
    }
    s / 2.
}

pub fn convex(v: &[P]) -> bool {
    let n = v.len();
    if n < 3 {
        return false;
    }
    let mut sign = 0.;
    for i in 0..n {
        let (a, b, c) = (v[i], v[(i + 1) % n], v[(i + 2) % n]);
        let cr = (b[0] - a[0]) * (c[1] - b[1]) - (b[1] - a[1]) * (c[0] - b[0]);
        if cr.abs() < 1e-12 {
            continue;
        }
        if sign == 0. {
            sign = cr.signum();
        } else if cr.signum() != sign {
            return false;
        }
    }
    true
}

/// Penetration depth of two *convex* polygons by the separating-axis theorem.
/// > 0: interiors overlap, value = minimum translation to separate;
/// < 0: separated, and the true distance is at least |value|.
pub fn sat_depth(a: &[P], b: &[P]) -> f64 {
    let mut depth = f64::INFINITY;
    for poly in [a, b].iter() {
        let n = poly.len();
        for i in 0..n {
            let (p, q) = (poly[i], poly[(i + 1) % n]);
            let e = sub(q, p);
            let len = norm(e);
            if len == 0. {
                continue;
            }
            let nrm = [e[1] / len, -e[0] / len];
            let (mut amin, mut amax) = (f64::INFINITY, f64::NEG_INFINITY);
            for v in a {
                let d = v[0] * nrm[0] + v[1] * nrm[1];
                amin = amin.min(d);
                amax = amax.max(d);
            }
            let (mut bmin, mut bmax) = (f64::INFINITY, f64::NEG_INFINITY);
            for v in b {
                let d = v[0] * nrm[0] + v[1] * nrm[1];
                bmin = bmin.min(d);
                bmax = bmax.max(d);
            }
            let o = amax.min(bmax) - amin.max(bmin);
            depth = depth.min(o);
        }
    }
    depth
}

/// depth for two placed shapes of the same kind (see `sat_depth` for the sign convention)
pub fn depth(a: &OShape, b: &OShape) -> f64 {
    match (a, b) {
        (OShape::Poly(x), OShape::Poly(y)) => sat_depth(x, y),
        (OShape::Discs(x), OShape::Discs(y)) => {
            let mut d = f64::NEG_INFINITY;
            for (c1, r1) in x {
                for (c2, r2) in y {
                    d = d.max(r1 + r2 - dist(*c1, *c2));
                }
            }
            d
        }
        _ => f64::NAN,
    }
}

/// Independent second opinion on overlap: exhibit a point strictly inside both shapes.
/// Polygons: Sutherland-Hodgman clipping of `a` by the half-planes of `b`, centroid of the
/// result.  Discs: the point in the middle of the lens of the deepest disc pair.
/// Used only to re-confirm witnesses found by `depth`.
pub fn common_interior_point(a: &OShape, b: &OShape, tol: f64) -> Option<P> {
    fn inside(s: &OShape, p: P, tol: f64) -> bool {
        match s {
            OShape::Poly(v) => {
                let or = shoelace(v).signum();
                let n = v.len();
                for i in 0..n {
                    let (p0, p1) = (v[i], v[(i + 1) % n]);
                    let e = sub(p1, p0);
                    let len = norm(e);
                    let cr = (e[0] * (p[1] - p0[1]) - e[1] * (p[0] - p0[0])) / len;
                    if cr * or < tol {
                        return false;
                    }
                }
                true
            }
            OShape::Discs(d) => d.iter().any(|(c, r)| dist(*c, p) < r - tol),
        }
    }
    let cand: Option<P> = match (a, b) {
        (OShape::Poly(va), OShape::Poly(vb)) => {
            let or = shoelace(vb).signum();
            let mut poly: Vec<P> = va.clone();
            let n = vb.len();
            for i in 0..n {
                let (p0, p1) = (vb[i], vb[(i + 1) % n]);
                let e = sub(p1, p0);
                let side = |p: P| (e[0] * (p[1] - p0[1]) - e[1] * (p[0] - p0[0])) * or;
                let mut out: Vec<P> = vec![];
                for k in 0..poly.len() {
                    let (s0, s1) = (poly[k], poly[(k + 1) % poly.len()]);
                    let (d0, d1) = (side(s0), side(s1));
                    if d0 >= 0. {
                        out.push(s0);
                    }
                    if (d0 >= 0.) != (d1 >= 0.) {
                        let t = d0 / (d0 - d1);
                        out.push([s0[0] + t * (s1[0] - s0[0]), s0[1] + t * (s1[1] - s0[1])]);
                    }
                }
                poly = out;
                if poly.len() < 3 {
                    break;
                }
            }
            if poly.len() >= 3 {
                let n = poly.len() as f64;
                let c = poly.iter().fold([0., 0.], |acc, p| add(acc, *p));
                Some([c[0] / n, c[1] / n])
            } else {
                None
            }
        }
        (OShape::Discs(da), OShape::Discs(db)) => {
            let mut best: Option<(f64, P)> = None;
            for (c1, r1) in da {
                for (c2, r2) in db {
                    let d = dist(*c1, *c2);
                    let dep = r1 + r2 - d;
                    if dep > 0. && best.map(|b| dep > b.0).unwrap_or(true) {
                        let p = if d == 0. {
                            *c1
                        } else {
                            // centre of the lens along the line of centres (clamped into both discs)
                            let s = ((r1 - dep / 2.) / d).max(0.).min(1.);
                            [c1[0] + s * (c2[0] - c1[0]), c1[1] + s * (c2[1] - c1[1])]
                        };
                        best = Some((dep, p));
                    }
                }
            }
            best.map(|b| b.1)
        }
        _ => None,
    };
    cand.filter(|p| inside(a, *p, tol) && inside(b, *p, tol))
}

/// Area of a union of discs, exact for any configuration: Green's theorem over the arcs of
/// each circle that are not covered by another disc.
pub fn union_area(discs: &[(P, f64)]) -> f64 {
    let n = discs.len();
    let mut total = 0.;
    'outer: for i in 0..n {
        let (ci, ri) = discs[i];
        if !(ri > 0.) {
            continue;
        }
        let mut covered: Vec<(f64, f64)> = vec![];
        for j in 0..n {
            if i == j {
                continue;
            }
            let (cj, rj) = discs[j];
            let d = dist(ci, cj);
            if d >= ri + rj {
                continue;
            }
            if d + ri <= rj {
                // i inside j (ties: identical discs -> keep the one with the lower index)
                if d + rj <= ri && i < j {
                    continue;
                }
                continue 'outer;
            }
            if d + rj <= ri {
                continue; // j inside i: covers nothing of i's boundary
            }
            let phi = (cj[1] - ci[1]).atan2(cj[0] - ci[0]);
            let cosa = ((d * d + ri * ri - rj * rj) / (2. * d * ri)).max(-1.).min(1.);
            let alpha = cosa.acos();
            let mut lo = phi - alpha;
            let hi0 = phi + alpha;
            // normalise to [0, 2pi)
            while lo < 0. {
                lo += 2. * PI;
            }
            while lo >= 2. * PI {
                lo -= 2. * PI;
            }
            let hi = lo + (hi0 - (phi - alpha));
            if hi > 2. * PI {
                covered.push((lo, 2. * PI));
                covered.push((0., hi - 2. * PI));
            } else {
                covered.push((lo, hi));
            }
        }
        covered.sort_by(|a, b| a.0.partial_cmp(&b.0).unwrap());
        // exposed = complement of the union of covered within [0, 2pi]
        let mut cur = 0.;
        let mut arc = |t1: f64, t2: f64| {
            if t2 > t1 {
                total += 0.5
                    * (ri * ri * (t2 - t1) + ri * ci[0] * (t2.sin() - t1.sin())
                        - ri * ci[1] * (t2.cos() - t1.cos()));
            }
        };
        for (lo, hi) in covered {
            if lo > cur {
                arc(cur, lo);
            }
            if hi > cur {
                cur = hi;
            }
        }
        if cur < 2. * PI {
            arc(cur, 2. * PI);
        }
    }
    total
}

/// Brute-force area of a union of discs on an n x n grid (cell-centre sampling).
pub fn union_area_grid(discs: &[(P, f64)], n: usize) -> f64 {
    let (mut x0, mut x1, mut y0, mut y1) = (f64::INFINITY, f64::NEG_INFINITY, f64::INFINITY, f64::NEG_INFINITY);
    for (c, r) in discs {
        x0 = x0.min(c[0] - r);
        x1 = x1.max(c[0] + r);
        y0 = y0.min(c[1] - r);
        y1 = y1.max(c[1] + r);
    }
    let (dx, dy) = ((x1 - x0) / n as f64, (y1 - y0) / n as f64);
    let mut cnt = 0u64;
    for i in 0..n {
        let x = x0 + (i as f64 + 0.5) * dx;
        for j in 0..n {
            let y = y0 + (j as f64 + 0.5) * dy;
            if discs.iter().any(|(c, r)| (x - c[0]).powi(2) + (y - c[1]).powi(2) < r * r) {
                cnt += 1;
            }
        }
    }
    cnt as f64 * dx * dy
}

/// do three discs share a common point (closed discs, with slack)?
pub fn triple_common_point(d: &[(P, f64)]) -> bool {
    if d.len() < 3 {
        return false;
    }
    // a common point exists iff some candidate (a centre, or a pairwise circle intersection
    // point) lies in all three discs
    let inside_all = |p: P| d.iter().all(|(c, r)| dist(*c, p) <= r + 1e-12);
    for (c, _) in d {
        if inside_all(*c) {
            return true;
        }
    }
    for i in 0..d.len() {
        for j in (i + 1)..d.len() {
            let ((c1, r1), (c2, r2)) = (d[i], d[j]);
            let dd = dist(c1, c2);
            if dd == 0. || dd > r1 + r2 || dd < (r1 - r2).abs() {
                continue;
            }
            let a = (dd * dd + r1 * r1 - r2 * r2) / (2. * dd);
            let h2 = r1 * r1 - a * a;
            let h = if h2 > 0. { h2.sqrt() } else { 0. };
            let ux = (c2[0] - c1[0]) / dd;
            let uy = (c2[1] - c1[1]) / dd;
            let px = c1[0] + a * ux;
            let py = c1[1] + a * uy;
            for s in [-1., 1.].iter() {
                if inside_all([px - s * h * uy, py + s * h * ux]) {
                    return true;
                }
            }
        }
    }
    false
}

pub fn any_containment(d: &[(P, f64)]) -> bool {
    for i in 0..d.len() {
        for j in 0..d.len() {
            if i != j && dist(d[i].0, d[j].0) + d[i].1 <= d[j].1 {
                return true;
            }
        }
    }
    false
}
