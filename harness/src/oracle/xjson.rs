//! A tiny JSON reader whose numbers are parsed by Rust's `str::parse::<f64>` (correctly
//! rounded).  The harness must not rely on serde_json's own float parsing when it reads
//! what the library wrote: that parser is part of what is being checked (C11).
use serde_json::{Map, Number, Value};

pub fn parse(s: &str) -> Result<Value, String> {
    let b = s.as_bytes();
    let mut i = 0;
    let v = val(b, &mut i)?;
    ws(b, &mut i);
    if i != b.len() {
        return Err(format!("trailing data at {}", i));
    }
    Ok(v)
}

fn ws(b: &[u8], i: &mut usize) {
    while *i < b.len() && (b[*i] == b' ' || b[*i] == b'\n' || b[*i] == b'\t' || b[*i] == b'\r') {
        *i += 1;
    }
}

fn val(b: &[u8], i: &mut usize) -> Result<Value, String> {
    ws(b, i);
    if *i >= b.len() {
        return Err("eof".into());
    }
    match b[*i] {
        b'{' => {
            *i += 1;
            let mut m = Map::new();
            ws(b, i);
            if *i < b.len() && b[*i] == b'}' {
                *i += 1;
                return Ok(Value::Object(m));
            }
            loop {
                ws(b, i);
                let k = match val(b, i)? {
                    Value::String(s) => s,
                    _ => return Err("key".into()),
                };
                ws(b, i);
                if *i >= b.len() || b[*i] != b':' {
                    return Err("colon".into());
                }
                *i += 1;
                let v = val(b, i)?;
                m.insert(k, v);
                ws(b, i);
                if *i >= b.len() {
                    return Err("eof".into());
                }
                if b[*i] == b',' {
                    *i += 1;
                    continue;
                }
                if b[*i] == b'}' {
                    *i += 1;
                    return Ok(Value::Object(m));
                }
                return Err(format!("object at {}", i));
            }
        }
        b'[' => {
            *i += 1;
            let mut a = vec![];
            ws(b, i);
            if *i < b.len() && b[*i] == b']' {
                *i += 1;
                return Ok(Value::Array(a));
            }
            loop {
                a.push(val(b, i)?);
                ws(b, i);
                if *i >= b.len() {
                    return Err("eof".into());
                }
                if b[*i] == b',' {
                    *i += 1;
                    continue;
                }
                if b[*i] == b']' {
                    *i += 1;
                    return Ok(Value::Array(a));
                }
                return Err(format!("array at {}", i));
            }
        }
        b'"' => {
            *i += 1;
            let mut s = String::new();
            while *i < b.len() && b[*i] != b'"' {
                if b[*i] == b'\\' && *i + 1 < b.len() {
                    *i += 1;
                    s.push(match b[*i] {
                        b'n' => '\n',
                        b't' => '\t',
                        c => c as char,
                    });
                } else {
                    s.push(b[*i] as char);
                }
                *i += 1;
            }
            *i += 1;
            Ok(Value::String(s))
        }
        b't' if b[*i..].starts_with(b"true") => {
            *i += 4;
            Ok(Value::Bool(true))
        }
        b'f' if b[*i..].starts_with(b"false") => {
            *i += 5;
            Ok(Value::Bool(false))
        }
        b'n' if b[*i..].starts_with(b"null") => {
            *i += 4;
            Ok(Value::Null)
        }
        _ => {
            let st = *i;
            while *i < b.len() && (b[*i] == b'-' || b[*i] == b'+' || b[*i] == b'.' || b[*i] == b'e' || b[*i] == b'E' || b[*i].is_ascii_digit()) {
                *i += 1;
            }
            let t = std::str::from_utf8(&b[st..*i]).map_err(|e| e.to_string())?;
            if !t.contains(|c| c == '.' || c == 'e' || c == 'E') {
                if let Ok(u) = t.parse::<u64>() {
                    return Ok(Value::Number(Number::from(u)));
                }
                if let Ok(i) = t.parse::<i64>() {
                    return Ok(Value::Number(Number::from(i)));
                }
            }
            let f: f64 = t.parse().map_err(|_| format!("number '{}' at {}", t, st))?;
            Ok(Number::from_f64(f).map(Value::Number).unwrap_or(Value::Null))
        }
    }
}

/// exact f64 at a path like ["cell","length"] or ["occupied_sites","0","x"]
pub fn get_f64(v: &Value, path: &[&str]) -> Option<f64> {
    let mut cur = v;
    for k in path {
        cur = match cur {
            Value::Object(m) => m.get(*k)?,
            Value::Array(a) => a.get(k.parse::<usize>().ok()?)?,
            _ => return None,
        };
    }
    cur.as_f64()
}
