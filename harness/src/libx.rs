//! Thin access layer to the library under test: building states with chosen parameters,
//! extracting geometry for the oracles.  Only public API + public fields + serde are used.

use nalgebra::Matrix3;
use packing::traits::*;
use packing::wallpaper::{get_wallpaper_group, WallpaperGroups};
use packing::{
    Cell2, LJShape2, LineShape, MolecularShape2, PackedState, PotentialState, Transform2,
    WallpaperGroup,
};
use serde::{Deserialize, Serialize};
use serde_json::{json, Value};

use crate::oracle::geom::{Affine, OShape, P};
use crate::oracle::groups;

pub fn lib_group(name: &str) -> Result<WallpaperGroup<'static>, String> {
    let g: WallpaperGroups = name.parse().map_err(|e: String| e)?;
    get_wallpaper_group(g).map_err(|e| e.to_string())
}

pub fn to_affine(t: &Transform2) -> Affine {
    let m: Matrix3<f64> = (*t).into();
    Affine { m: [[m[(0, 0)], m[(0, 1)]], [m[(1, 0)], m[(1, 1)]]], t: [m[(0, 2)], m[(1, 2)]] }
}

pub fn from_affine(a: &Affine) -> Transform2 {
    Transform2::from(Matrix3::new(
        a.m[0][0], a.m[0][1], a.t[0], a.m[1][0], a.m[1][1], a.t[1], 0., 0., 1.,
    ))
}

#[derive(Serialize, Deserialize, Clone, Debug, PartialEq)]
pub enum ShapeSpec {
    Polygon { sides: usize },
    Radial { radii: Vec<f64> },
    Circle,
    Trimer { radius: f64, angle: f64, distance: f64 },
}

impl ShapeSpec {
    pub fn label(&self) -> String {
        match self {
            ShapeSpec::Polygon { sides } => format!("polygon{}", sides),
            ShapeSpec::Radial { radii } => format!("radial{}", radii.len()),
            ShapeSpec::Circle => "circle".into(),
            ShapeSpec::Trimer { .. } => "trimer".into(),
        }
    }
    pub fn line(&self) -> Option<LineShape> {
        match self {
            ShapeSpec::Polygon { sides } => LineShape::polygon(*sides).ok(),
            ShapeSpec::Radial { radii } => LineShape::from_radial("Radial", radii.clone()).ok(),
            _ => None,
        }
    }
    pub fn mol(&self) -> Option<MolecularShape2> {
        match self {
            ShapeSpec::Circle => Some(MolecularShape2::circle()),
            ShapeSpec::Trimer { radius, angle, distance } => {
                Some(MolecularShape2::from_trimer(*radius, *angle, *distance))
            }
            _ => None,
        }
    }
    pub fn lj(&self) -> Option<LJShape2> {
        match self {
            ShapeSpec::Circle => Some(LJShape2::circle()),
            ShapeSpec::Trimer { radius, angle, distance } => {
                Some(LJShape2::from_trimer(*radius, *angle, *distance))
            }
            _ => None,
        }
    }
    pub fn is_line(&self) -> bool {
        matches!(self, ShapeSpec::Polygon { .. } | ShapeSpec::Radial { .. })
    }
}

/// Geometry of a hard shape, read from its public data fields (what its JSON contains).
pub trait HardGeom: Shape + Intersect + for<'de> Deserialize<'de> + 'static {
    fn oshape(&self) -> OShape;
}

impl HardGeom for LineShape {
    fn oshape(&self) -> OShape {
        OShape::Poly(self.items.iter().map(|l| [l.start.x, l.start.y]).collect())
    }
}

impl HardGeom for MolecularShape2 {
    fn oshape(&self) -> OShape {
        OShape::Discs(self.items.iter().map(|a| ([a.position.x, a.position.y], a.radius)).collect())
    }
}

#[derive(Clone, Copy, Debug)]
pub struct LjAtom {
    pub p: P,
    pub sigma: f64,
    pub eps: f64,
    pub cutoff: Option<f64>,
}

pub fn lj_atoms(s: &LJShape2) -> Vec<LjAtom> {
    s.items
        .iter()
        .map(|a| LjAtom { p: [a.position.x, a.position.y], sigma: a.sigma, eps: a.epsilon, cutoff: a.cutoff })
        .collect()
}

/// Free parameters of a state.  `angle` is only applied to oblique (Monoclinic) cells.
#[derive(Serialize, Deserialize, Clone, Copy, Debug, PartialEq)]
pub struct Params {
    pub len: f64,
    pub ratio: f64,
    pub angle: f64,
    pub x: f64,
    pub y: f64,
    pub phi: f64,
}

impl Params {
    pub fn quant(&self) -> [u64; 6] {
        use crate::common::q;
        [q(self.len, 1e-6), q(self.ratio, 1e-6), q(self.angle, 1e-6), q(self.x, 1e-7), q(self.y, 1e-7), q(self.phi, 1e-6)]
    }
    pub fn to_json(&self) -> Value {
        json!({"len": self.len, "ratio": self.ratio, "angle": self.angle, "x": self.x, "y": self.y, "phi": self.phi})
    }
}

pub fn is_oblique(group: &str) -> bool {
    groups::group(group).map(|g| g.family == "Monoclinic").unwrap_or(false)
}

/// number of free parameters expected for a group: length, ratio, [angle], x, y, phi
pub fn expected_dof(group: &str) -> usize {
    if is_oblique(group) {
        6
    } else {
        5
    }
}

/// Which basis handle drives which field, found by probing (so that a library that orders its
/// handles differently is still driven correctly).  Canonical field order:
/// length, ratio, [cell angle], x, y, orientation.  Cached per group.
pub fn basis_layout(group: &str) -> Result<Vec<usize>, String> {
    use std::collections::HashMap;
    use std::sync::Mutex;
    static CACHE: Mutex<Option<HashMap<String, Vec<usize>>>> = Mutex::new(None);
    if let Some(v) = CACHE.lock().unwrap().get_or_insert_with(HashMap::new).get(group) {
        return Ok(v.clone());
    }
    let wg = lib_group(group)?;
    let mut st = PackedState::from_group(LineShape::polygon(5).map_err(|e| e.to_string())?, &wg).map_err(|e| e.to_string())?;
    st.cell = Cell2::from_family(st.wallpaper.family, 64.);
    let fields: Vec<Vec<&str>> = if is_oblique(group) {
        vec![vec!["cell", "length"], vec!["cell", "ratio"], vec!["cell", "angle"], vec!["occupied_sites", "0", "x"], vec!["occupied_sites", "0", "y"], vec!["occupied_sites", "0", "angle"]]
    } else {
        vec![vec!["cell", "length"], vec!["cell", "ratio"], vec!["occupied_sites", "0", "x"], vec!["occupied_sites", "0", "y"], vec!["occupied_sites", "0", "angle"]]
    };
    // (a field may be absent from the JSON, e.g. left out when it holds a default: that is a
    // matter of format, not of plumbing - absent is one more value a field can take)
    let read = |st: &PackedState<LineShape>| -> Result<Vec<f64>, String> {
        let v = serde_json::to_value(st).map_err(|e| e.to_string())?;
        Ok(fields.iter().map(|f| crate::oracle::xjson::get_f64(&v, f).unwrap_or(f64::from_bits(0x7ff8_dead_beef_0001))).collect())
    };
    let n = st.generate_basis().len();
    if n != fields.len() {
        return Err(format!("basis has {} handles, expected {}", n, fields.len()));
    }
    let mut layout = vec![usize::MAX; fields.len()];
    for i in 0..n {
        let before = read(&st)?;
        {
            let mut b = st.generate_basis();
            let old = b[i].get_value();
            // a value certainly inside any of the ranges these handles can have
            let probe = if old > 0.3 { old * 0.9 } else { old + 0.17 };
            b[i].set_value(probe);
        }
        let after = read(&st)?;
        let changed: Vec<usize> = (0..fields.len()).filter(|k| before[*k].to_bits() != after[*k].to_bits()).collect();
        if changed.len() != 1 {
            return Err(format!("handle {} of group {} changes {} fields", i, group, changed.len()));
        }
        layout[changed[0]] = i;
    }
    if layout.iter().any(|x| *x == usize::MAX) {
        return Err("some field is not driven by any handle".into());
    }
    CACHE.lock().unwrap().get_or_insert_with(HashMap::new).insert(group.to_string(), layout.clone());
    Ok(layout)
}

/// Write parameters into a state through its own basis handles (values are clamped by the
/// library to each handle's range; the caller reads back what was actually stored).
pub fn set_params_via_basis<T: State>(state: &T, group: &str, p: &Params) -> Result<(), String> {
    let layout = basis_layout(group)?;
    let mut basis = state.generate_basis();
    let want: Vec<f64> = if is_oblique(group) {
        vec![p.len, p.ratio, p.angle, p.x, p.y, p.phi]
    } else {
        vec![p.len, p.ratio, p.x, p.y, p.phi]
    };
    if basis.len() != want.len() {
        return Err(format!("basis has {} handles, expected {}", basis.len(), want.len()));
    }
    for (k, v) in want.iter().enumerate() {
        basis[layout[k]].set_value(*v);
    }
    Ok(())
}

/// declared ranges in *basis order* for a stage starting from the given canonical ranges
pub fn to_basis_order(group: &str, canonical: &[(f64, f64)]) -> Result<Vec<(f64, f64)>, String> {
    let layout = basis_layout(group)?;
    let mut out = vec![(0., 0.); canonical.len()];
    for (k, r) in canonical.iter().enumerate() {
        out[layout[k]] = *r;
    }
    Ok(out)
}

pub fn basis_values<T: State>(state: &T) -> Vec<f64> {
    state.generate_basis().iter().map(|b| b.get_value()).collect()
}

pub const BIG_LEN: f64 = 1.0e9;

pub fn build_packed<S: HardGeom>(shape: S, group: &str, p: &Params) -> Result<PackedState<S>, String> {
    let wg = lib_group(group)?;
    let mut st = PackedState::from_group(shape, &wg).map_err(|e| e.to_string())?;
    st.cell = Cell2::from_family(st.wallpaper.family, BIG_LEN);
    set_params_via_basis(&st, group, p)?;
    Ok(st)
}

pub fn build_potential(shape: LJShape2, group: &str, p: &Params) -> Result<PotentialState<LJShape2>, String> {
    let wg = lib_group(group)?;
    let mut st = PotentialState::from_group(shape, &wg).map_err(|e| e.to_string())?;
    st.cell = Cell2::from_family(st.wallpaper.family, BIG_LEN);
    set_params_via_basis(&st, group, p)?;
    Ok(st)
}

/// lattice as the oracle sees it: recomputed from the cell's three numbers
pub fn lattice_of(cell: &Cell2) -> crate::oracle::lattice::Lattice {
    crate::oracle::lattice::Lattice { a: cell.a(), b: cell.b(), theta: cell.angle() }
}

/// Start-up self-check of the plumbing above: parameters written through the basis land in
/// the JSON fields they are meant for.  A failure is a harness problem (inconclusive).
pub fn selfcheck_plumbing() -> Result<(), String> {
    use crate::oracle::xjson;
    for g in groups::NAMES.iter() {
        let p = Params { len: 7.25, ratio: 0.625, angle: 1.125, x: -0.125, y: 0.375, phi: 2.5 };
        let st = build_packed(LineShape::polygon(5).unwrap(), g, &p)?;
        let txt = serde_json::to_string(&st).map_err(|e| e.to_string())?;
        let v = xjson::parse(&txt)?;
        let chk = |path: &[&str], want: f64| -> Result<(), String> {
            match xjson::get_f64(&v, path) {
                Some(x) if x == want => Ok(()),
                o => Err(format!("plumbing: {} {:?} = {:?}, wanted {}", g, path, o, want)),
            }
        };
        chk(&["cell", "length"], 7.25)?;
        chk(&["cell", "ratio"], 0.625)?;
        if is_oblique(g) {
            chk(&["cell", "angle"], 1.125)?;
        }
        chk(&["occupied_sites", "0", "x"], -0.125)?;
        chk(&["occupied_sites", "0", "y"], 0.375)?;
        chk(&["occupied_sites", "0", "angle"], 2.5)?;
        if st.cell.a() != 7.25 || st.cell.b() != 7.25 * 0.625 {
            return Err("plumbing: cell accessors".into());
        }
    }
    Ok(())
}

/// random shape generators shared by several properties
pub mod gen {
    use super::ShapeSpec;
    use rand::Rng;

    pub fn trimer<R: Rng>(rng: &mut R) -> ShapeSpec {
        if rng.gen_bool(0.3) {
            // the CLI default
            return ShapeSpec::Trimer { radius: 0.637556, angle: 120., distance: 1. };
        }
        if rng.gen_bool(0.15) {
            // an open molecule: small outer discs far from the central one (gaps wide enough for
            // another molecule's disc; extent beyond 4)
            return ShapeSpec::Trimer { radius: rng.gen_range(0.2, 0.7), angle: rng.gen_range(50., 180.), distance: rng.gen_range(2.0, 5.0) };
        }
        ShapeSpec::Trimer {
            radius: rng.gen_range(0.2, 1.2),
            angle: rng.gen_range(30., 180.),
            distance: rng.gen_range(0.3, 2.0),
        }
    }

    pub fn hard_shape<R: Rng>(rng: &mut R) -> ShapeSpec {
        match rng.gen_range(0, 10) {
            0..=4 => ShapeSpec::Polygon { sides: rng.gen_range(3, 13) },
            5 => ShapeSpec::Circle,
            _ => trimer(rng),
        }
    }
}
