#!/usr/bin/env bash
# Offline, from files on disk only: pre-build the harness and the hooked CLI so that the
# first check is not charged for dependency compilation.
set -u
V="$(cd "$(dirname "${BASH_SOURCE[0]}")" && pwd)"
REPO="${PV_REPO:-/repo}"
cd "$V"
export CARGO_NET_OFFLINE=true
mkdir -p .build/logs evidence replays
( cd harness && CARGO_TARGET_DIR="$V/.build/rel" cargo build --release --offline ) 2>&1 | tail -3
( cd "$REPO" && RUSTFLAGS="--cfg packing_verif" cargo build --release --offline --bin packing --target-dir "$V/.build/cli" ) 2>&1 | tail -3
exit 0
